package main

import (
	"go/ast"
	"path/filepath"
	"strings"
)

// genCtrl regenerates Cosi/Gen/Ctrl.lean from pkg/controller/generic/qtransform/qtransform.go:
// the structure of reconcileRunning / reconcileTearingDown that the QTransform machine of
// Cosi.Model.QTransform follows (when the input finalizer is added, and the order
// finalizer → output / teardown → destroy → finalizer release).
func genCtrl(repo, out string) {
	const ns = "Cosi.Gen.Ctrl"

	l := newLean("Ctrl.lean", ns)
	f := parse(filepath.Join(repo, "pkg/controller/generic/qtransform/qtransform.go"))

	addFin := ".unknown"
	runningOrder := false

	if fd := method(f, "QController[Input, Output]", "reconcileRunning"); fd != nil && fd.Body != nil && len(fd.Body.List) >= 3 {
		if is, ok := fd.Body.List[0].(*ast.IfStmt); ok && strings.Contains(src(is.Body), "r.AddFinalizer(ctx, in.Metadata(), ctrl.Name())") {
			switch src(is.Cond) {
			case "!in.Metadata().Finalizers().Has(ctrl.Name())":
				addFin = ".whenMissing"
			case "!in.Metadata().Finalizers().Has(ctrl.Name()) && in.Metadata().Phase() == resource.PhaseRunning":
				addFin = ".whenMissingAndRunning"
			}

			// an AddFinalizer failure aborts the reconcile
			if r, ok := lastReturn(is.Body.List[0].(*ast.IfStmt).Body); !ok || !strings.HasPrefix(r, "fmt.Errorf(") {
				addFin = ".unknown"
			}
		}

		s1, s2 := src(fd.Body.List[1]), ""
		for _, st := range fd.Body.List[2:] {
			if strings.Contains(src(st), "safe.WriterModify(ctx, r, mappedOut") {
				s2 = src(st)

				break
			}
		}

		runningOrder = strings.HasPrefix(s1, "if err := ctrl.handleOutputTearingDown(ctx, r, mappedOut); err != nil {") && s2 != ""
	}

	tearingOrder := false

	if fd := method(f, "QController[Input, Output]", "reconcileTearingDown"); fd != nil && fd.Body != nil {
		var seq []string

		for _, st := range fd.Body.List {
			s := src(st)

			switch {
			case strings.HasPrefix(s, "if ctrl.finalizerRemovalFunc != nil {"):
				seq = append(seq, "removalFunc")
			case strings.HasPrefix(s, "ready, err := r.Teardown(ctx, outPtr)"):
				seq = append(seq, "teardown")
			case strings.HasPrefix(s, "if err != nil { if state.IsNotFoundError(err) { return r.RemoveFinalizer(ctx, in.Metadata(), ctrl.Name()) }"):
				seq = append(seq, "notFoundReleases")
			case s == "if !ready { return nil }":
				seq = append(seq, "waitUntilReady")
			case strings.HasPrefix(s, "if err := r.Destroy(ctx, outPtr); err != nil { return "):
				seq = append(seq, "destroy")
			case s == "return r.RemoveFinalizer(ctx, in.Metadata(), ctrl.Name())":
				seq = append(seq, "release")
			default:
				seq = append(seq, "?")
			}
		}

		tearingOrder = strings.Join(seq, ",") == "removalFunc,teardown,notFoundReleases,waitUntilReady,destroy,release"
	}

	staleOutput := false

	if fd := method(f, "QController[Input, Output]", "handleOutputTearingDown"); fd != nil && fd.Body != nil {
		b := src(fd.Body)
		staleOutput = strings.Contains(b, "if output == nil || output.Metadata().Phase() != resource.PhaseTearingDown { return nil }") &&
			strings.Contains(b, "if !output.Metadata().Finalizers().Empty() { return errPendingOutputTeardown }") &&
			strings.HasSuffix(b, "return r.Destroy(ctx, mappedOut.Metadata()) }")
	}

	l.line("/-- when reconcileRunning adds the controller's finalizer to the input -/")
	l.line("def addFinalizer : AddFinRule := %s", addFin)
	l.line("/-- reconcileRunning: finalizer, then a tearing-down output is finished, then Modify -/")
	l.line("def runningOrder : Bool := %s", leanBool(runningOrder))
	l.line("/-- reconcileTearingDown: Teardown(out); NotFound releases; not ready waits; Destroy(out); RemoveFinalizer(in) -/")
	l.line("def tearingOrder : Bool := %s", leanBool(tearingOrder))
	l.line("/-- handleOutputTearingDown destroys only an output that is tearing down with no finalizers -/")
	l.line("def staleOutputRule : Bool := %s", leanBool(staleOutput))
	l.write(out, ns)
}
