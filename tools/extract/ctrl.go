package main

import (
	"go/ast"
	"go/token"
	"path/filepath"
	"strings"
)

// genCtrl regenerates Cosi/Gen/Ctrl.lean from pkg/controller/generic/qtransform/qtransform.go:
// the structure of reconcileRunning / reconcileTearingDown that the QTransform machine of
// Cosi.Model.QTransform follows (when the input finalizer is added, and the order
// finalizer → output / teardown → destroy → finalizer release).
func genCtrl(repo, out string) {
	const ns = "Cosi.Gen.Ctrl"

	l := newLean("Ctrl.lean", ns)
	f := parse(filepath.Join(repo, "pkg/controller/generic/qtransform/qtransform.go"))

	addFin := ".unknown"
	runningOrder := false

	if fd := method(f, "QController[Input, Output]", "reconcileRunning"); fd != nil && fd.Body != nil && len(fd.Body.List) >= 3 {
		if is, ok := fd.Body.List[0].(*ast.IfStmt); ok && strings.Contains(src(is.Body), "r.AddFinalizer(ctx, in.Metadata(), ctrl.Name())") {
			switch src(is.Cond) {
			case "!in.Metadata().Finalizers().Has(ctrl.Name())":
				addFin = ".whenMissing"
			case "!in.Metadata().Finalizers().Has(ctrl.Name()) && in.Metadata().Phase() == resource.PhaseRunning":
				addFin = ".whenMissingAndRunning"
			}

			// an AddFinalizer failure aborts the reconcile
			if r, ok := lastReturn(is.Body.List[0].(*ast.IfStmt).Body); !ok || !strings.HasPrefix(r, "fmt.Errorf(") {
				addFin = ".unknown"
			}
		}

		s1, s2 := src(fd.Body.List[1]), ""
		for _, st := range fd.Body.List[2:] {
			if strings.Contains(src(st), "safe.WriterModify(ctx, r, mappedOut") {
				s2 = src(st)

				break
			}
		}

		runningOrder = strings.HasPrefix(s1, "if err := ctrl.handleOutputTearingDown(ctx, r, mappedOut); err != nil {") && s2 != ""
	}

	tearingOrder := false

	if fd := method(f, "QController[Input, Output]", "reconcileTearingDown"); fd != nil && fd.Body != nil {
		var seq []string

		for _, st := range fd.Body.List {
			s := src(st)

			switch {
			case strings.HasPrefix(s, "if ctrl.finalizerRemovalFunc != nil {"):
				seq = append(seq, "removalFunc")
			case strings.HasPrefix(s, "ready, err := r.Teardown(ctx, outPtr)"):
				seq = append(seq, "teardown")
			case strings.HasPrefix(s, "if err != nil { if state.IsNotFoundError(err) { return r.RemoveFinalizer(ctx, in.Metadata(), ctrl.Name()) }"):
				seq = append(seq, "notFoundReleases")
			case s == "if !ready { return nil }":
				seq = append(seq, "waitUntilReady")
			case strings.HasPrefix(s, "if err := r.Destroy(ctx, outPtr); err != nil { return "):
				seq = append(seq, "destroy")
			case s == "return r.RemoveFinalizer(ctx, in.Metadata(), ctrl.Name())":
				seq = append(seq, "release")
			default:
				seq = append(seq, "?")
			}
		}

		tearingOrder = strings.Join(seq, ",") == "removalFunc,teardown,notFoundReleases,waitUntilReady,destroy,release"
	}

	staleOutput := false

	if fd := method(f, "QController[Input, Output]", "handleOutputTearingDown"); fd != nil && fd.Body != nil {
		b := src(fd.Body)
		staleOutput = strings.Contains(b, "if output == nil || output.Metadata().Phase() != resource.PhaseTearingDown { return nil }") &&
			strings.Contains(b, "if !output.Metadata().Finalizers().Empty() { return errPendingOutputTeardown }") &&
			strings.HasSuffix(b, "return r.Destroy(ctx, mappedOut.Metadata()) }")
	}

	l.line("/-- when reconcileRunning adds the controller's finalizer to the input -/")
	l.line("def addFinalizer : AddFinRule := %s", addFin)
	l.line("/-- reconcileRunning: finalizer, then a tearing-down output is finished, then Modify -/")
	l.line("def runningOrder : Bool := %s", leanBool(runningOrder))
	l.line("/-- reconcileTearingDown: Teardown(out); NotFound releases; not ready waits; Destroy(out); RemoveFinalizer(in) -/")
	l.line("def tearingOrder : Bool := %s", leanBool(tearingOrder))
	l.line("/-- handleOutputTearingDown destroys only an output that is tearing down with no finalizers -/")
	l.line("def staleOutputRule : Bool := %s", leanBool(staleOutput))
	genCtrlTransform(repo, l)
	genCtrlCleanup(repo, l)

	// the error of the Modify step that is skipped: a conflict ON THE MAPPED OUTPUT (its namespace and type), nothing else
	qualified := func(f *ast.File) bool {
		n, ok := 0, true

		ast.Inspect(f, func(nd ast.Node) bool {
			if c, isCall := nd.(*ast.CallExpr); isCall && src(c.Fun) == "state.IsConflictError" {
				n++

				if src(c) != "state.IsConflictError( err, state.WithResourceNamespace(mappedOut.Metadata().Namespace()), state.WithResourceType(mappedOut.Metadata().Type()), )" &&
					src(c) != "state.IsConflictError(err, state.WithResourceNamespace(mappedOut.Metadata().Namespace()), state.WithResourceType(mappedOut.Metadata().Type()))" {
					ok = false
				}
			}

			return true
		})

		return ok && n == 1
	}

	l.line("/-- qtransform reconcileRunning and transform processInputs skip a Modify error only if it is a conflict qualified by the mapped output's namespace and type -/")
	l.line("def conflictSkipQualified : Bool := %s", leanBool(qualified(f) && qualified(parse(filepath.Join(repo, "pkg/controller/generic/transform/controller.go")))))
	l.write(out, ns)
}

// ---------------------------------------------------------------------------------------------
// transform.Controller (pkg/controller/generic/transform/controller.go): the decision points of one
// pass with input finalizers that the machine of Cosi.Model.Transform takes as `Rules`.

// ctrlExitClasses are the constructors of Cosi.Gen.CleanupExit, in declaration order.
var ctrlExitClasses = []string{"notOwned", "touched", "teardownErr", "notReady", "destroyErr", "destroyOk"}

const (
	ctrlDelStmt      = "delete(runState.removeInputFinalizers, out.Metadata().ID())"
	ctrlTeardownStmt = "ready, err = r.Teardown(ctx, out.Metadata())"
	ctrlDestroyCond  = "err = r.Destroy(ctx, out.Metadata()); err != nil"
	ctrlTouchedCond  = "_, touched := runState.touchedOutputIDs[out.Metadata().ID()]; touched"
)

// ctrlExitWalker enumerates, statement by statement, every path through the body of cleanupOutputs' per-output
// loop. Each path ends at a `continue` or at the end of the body; it is classified by the guard under which it
// left the main line, and it is recorded whether the path executed `delete(runState.removeInputFinalizers, id)`.
// An if statement nested inside an already classified branch (e.g. a special case of the Destroy error) keeps
// that class: all its exits are exits of the class. Any statement the walker does not know makes the table
// unusable (every exit "keeps" the release: the worst rule).
type ctrlExitWalker struct {
	undeleted map[string]bool // class -> some path to this exit does not delete
	seen      map[string]bool
	spine     []string // the recognised statements of the main line, in order
	bad       bool
	steps     int
}

func ifCondText(is *ast.IfStmt) string {
	c := src(is.Cond)
	if is.Init != nil {
		c = src(is.Init) + "; " + c
	}

	return c
}

func (w *ctrlExitWalker) exit(class string, deleted bool) {
	w.seen[class] = true

	if !deleted {
		w.undeleted[class] = true
	}
}

// walk follows one path: `label` is "main" on the main line, else the exit class of the branch taken; `stage`
// is "", "teardown" (after the Teardown call), "checked" (after its err check), "ready" (after the !ready check)
// or "destroyed" (after the Destroy statement); `spine` is true only on the path that takes no branch.
func (w *ctrlExitWalker) walk(stmts []ast.Stmt, label string, deleted bool, stage string, spine bool) {
	w.steps++
	if w.steps > 4096 {
		w.bad = true

		return
	}

	for i, st := range stmts {
		rest := stmts[i+1:]

		switch x := st.(type) {
		case *ast.ExprStmt:
			text := src(x)

			switch {
			case text == ctrlDelStmt:
				deleted = true
			case strings.HasPrefix(text, "logger."):
			default:
				w.bad = true

				return
			}
		case *ast.BranchStmt:
			if x.Tok != token.CONTINUE || x.Label != nil || label == "main" {
				w.bad = true

				return
			}

			w.exit(label, deleted)

			return
		case *ast.DeclStmt:
			if src(x) != "var ready bool" {
				w.bad = true

				return
			}
		case *ast.AssignStmt:
			text := src(x)

			switch {
			case text == ctrlTeardownStmt && label == "main" && stage == "":
				stage = "teardown"

				if spine {
					w.spine = append(w.spine, "teardown")
				}
			case strings.HasPrefix(text, "runState.multiErr = multierror.Append(runState.multiErr, "):
			default:
				w.bad = true

				return
			}
		case *ast.IfStmt:
			if x.Else != nil {
				w.bad = true

				return
			}

			cond := ifCondText(x)
			thenLabel, elseStage := "", stage

			switch {
			case label != "main":
				// a special case inside a classified branch: same class
				thenLabel = label
			case cond == "out.Metadata().Owner() != ctrl.Name()" && stage == "":
				thenLabel = "notOwned"
			case cond == "out.Metadata().Phase() != resource.PhaseTearingDown" && stage == "":
				// the block guarding the touched check: transparent
				thenLabel = "main"
			case cond == ctrlTouchedCond && stage == "":
				thenLabel = "touched"
			case cond == "err != nil" && stage == "teardown":
				thenLabel, elseStage = "teardownErr", "checked"
			case cond == "!ready" && stage == "checked":
				thenLabel, elseStage = "notReady", "ready"
			case cond == ctrlDestroyCond && stage == "ready":
				thenLabel, elseStage = "destroyErr", "destroyed"
			default:
				w.bad = true

				return
			}

			if spine && thenLabel != "main" {
				w.spine = append(w.spine, thenLabel)
			}

			// the path that takes the branch: its body, then (if the body falls through) what follows
			then := append(append([]ast.Stmt{}, x.Body.List...), rest...)
			w.walk(then, thenLabel, deleted, stage, false)

			if w.bad {
				return
			}

			if thenLabel == "main" {
				// the transparent block: the path that skips it continues below, still on the spine; the
				// touched check inside belongs to the spine as well
				for _, inner := range x.Body.List {
					if is, ok := inner.(*ast.IfStmt); ok && ifCondText(is) == ctrlTouchedCond && spine {
						w.spine = append(w.spine, "touched")
					}
				}
			}

			stage = elseStage
		default:
			w.bad = true

			return
		}
	}

	// the end of the loop body
	switch {
	case label != "main":
		w.exit(label, deleted)
	case stage == "destroyed":
		w.exit("destroyOk", deleted)
	default:
		w.bad = true
	}
}

func rangeOver(st ast.Stmt, what string) *ast.RangeStmt {
	rs, ok := st.(*ast.RangeStmt)
	if !ok || src(rs.X) != what {
		return nil
	}

	return rs
}

func genCtrlTransform(repo string, l *leanFile) {
	const recv = "Controller[Input, Output]"

	f := parse(filepath.Join(repo, "pkg/controller/generic/transform/controller.go"))

	// --- cleanupOutputs: the exit table of the per-output loop and the release loop after it
	w := &ctrlExitWalker{undeleted: map[string]bool{}, seen: map[string]bool{}}
	shape := false

	if fd := method(f, recv, "cleanupOutputs"); fd != nil && fd.Body != nil && len(fd.Body.List) == 5 {
		b := fd.Body.List
		loop := rangeOver(b[2], "outputItems.All()")
		release := rangeOver(b[3], "runState.removeInputFinalizers")

		if loop != nil && release != nil && src(loop.Key) == "out" &&
			src(b[0]) == "outputItems, err := safe.ReaderList[Output](ctx, r, outputMetadata)" &&
			strings.HasPrefix(src(b[1]), "if err != nil { return ") &&
			src(b[4]) == "return nil" {
			w.walk(loop.Body.List, "main", false, "", true)

			releaseOK := false

			if len(release.Body.List) == 1 && src(release.Value) == "inMd" {
				if is, ok := release.Body.List[0].(*ast.IfStmt); ok {
					releaseOK = ifCondText(is) == "err = r.RemoveFinalizer(ctx, inMd, ctrl.Name()); err != nil"
				}
			}

			shape = !w.bad && releaseOK &&
				strings.Join(w.spine, ",") == "notOwned,touched,teardown,teardownErr,notReady,destroyErr"

			for _, c := range ctrlExitClasses {
				if !w.seen[c] {
					shape = false
				}
			}
		}
	}

	l.line("/-- transform.cleanupOutputs: List outputs; per output: not-owned, touched (unless tearing down), Teardown, its error, not ready, Destroy — in this order, every statement recognised, every exit present; then RemoveFinalizer for what is left in removeInputFinalizers -/")
	l.line("def cleanupLoopShape : Bool := %s", leanBool(shape))
	l.line("/-- transform.cleanupOutputs: SOME path to this exit of the loop body does not `delete(runState.removeInputFinalizers, id)` -/")
	l.line("def cleanupExitKeepsRelease : CleanupExit → Bool")

	for _, c := range ctrlExitClasses {
		l.line("  | .%s => %s", c, leanBool(!shape || w.undeleted[c]))
	}

	// --- processInputs: tearing-down inputs are handed to reconcileTearingDownInput; for the others the
	// finalizer is added (failure → continue) before Modify
	finFirst := false
	dispatch := false

	if fd := method(f, recv, "processInputs"); fd != nil && fd.Body != nil {
		var loop *ast.RangeStmt

		for _, st := range fd.Body.List {
			if rs := rangeOver(st, "inputItems.All()"); rs != nil {
				loop = rs
			}
		}

		if loop != nil && !strings.Contains(src(fd.Body), "removeInputFinalizers") {
			iTD, iTouched, iFin, iMod, writesBefore := -1, -1, -1, -1, false

			for i, st := range loop.Body.List {
				s := src(st)

				switch {
				case strings.HasPrefix(s, "if !ctrl.options.ignoreTearingDownInputs && in.Metadata().Phase() == resource.PhaseTearingDown { ctrl.reconcileTearingDownInput(ctx, r, logger, runState, in, mappedOut)") &&
					strings.HasSuffix(s, "continue }"):
					iTD = i
				case s == "runState.touchedOutputIDs[mappedOut.Metadata().ID()] = struct{}{}":
					iTouched = i
				case strings.HasPrefix(s, "if ctrl.options.inputFinalizers { if in.Metadata().Finalizers().Add(ctrl.Name()) { if err = r.AddFinalizer(ctx, in.Metadata(), ctrl.Name()); err != nil { runState.multiErr = multierror.Append(runState.multiErr, err) continue }"):
					iFin = i
				case strings.HasPrefix(s, "if err = safe.WriterModify(ctx, r, mappedOut, "):
					if iMod < 0 {
						iMod = i
					}
				case strings.Contains(s, "reconcileTearingDownInput"):
					iTD = -2
				default:
					if iMod < 0 && (containsCall(st, "safe.WriterModify") || containsCall(st, "r.Modify") || containsCall(st, "r.Create") || containsCall(st, "r.Update")) {
						writesBefore = true
					}
				}
			}

			dispatch = iTD >= 0 && iTouched > iTD
			finFirst = dispatch && iFin > iTouched && iMod > iFin && !writesBefore
		}
	}

	l.line("/-- transform.processInputs: for an input not handed to reconcileTearingDownInput, AddFinalizer (failure → continue) precedes Modify -/")
	l.line("def transformFinBeforeModify : Bool := %s", leanBool(finFirst))

	// --- reconcileTearingDownInput: the only place that enters an input into removeInputFinalizers
	source := ".unknown"

	if fd := method(f, recv, "reconcileTearingDownInput"); fd != nil && fd.Body != nil && len(fd.Body.List) == 4 && dispatch {
		b := fd.Body.List
		s2 := src(b[2])

		if src(b[0]) == "if !ctrl.options.inputFinalizers { return }" &&
			src(b[1]) == "if in.Metadata().Finalizers().Add(ctrl.Name()) { return }" &&
			strings.HasPrefix(s2, "if err := ctrl.finalizerRemovalFunc(ctx, r, logger, in); err != nil {") &&
			strings.HasSuffix(s2, "runState.touchedOutputIDs[mappedOut.Metadata().ID()] = struct{}{} return }") &&
			!strings.Contains(s2, "removeInputFinalizers") &&
			src(b[3]) == "runState.removeInputFinalizers[mappedOut.Metadata().ID()] = in.Metadata()" {
			source = ".tornDownFinRemovalOk"
		}
	}

	// nothing else in the file writes the map
	writes := 0

	for _, d := range f.Decls {
		fd, ok := d.(*ast.FuncDecl)
		if !ok || fd.Body == nil {
			continue
		}

		ast.Inspect(fd.Body, func(n ast.Node) bool {
			if as, ok := n.(*ast.AssignStmt); ok {
				for _, lhs := range as.Lhs {
					if strings.Contains(src(lhs), "removeInputFinalizers") {
						writes++
					}
				}
			}

			return true
		})
	}

	if writes != 1 {
		source = ".unknown"
	}

	l.line("/-- transform: where an input is entered into removeInputFinalizers -/")
	l.line("def transformReleaseSource : ReleaseSource := %s", source)
}

// ---------------------------------------------------------------------------------------------
// cleanup.Controller (pkg/controller/generic/cleanup/cleanup.go): Combine's loop and processInput's switch.

func genCtrlCleanup(repo string, l *leanFile) {
	f := parse(filepath.Join(repo, "pkg/controller/generic/cleanup/cleanup.go"))

	combine := ".unknown"

	if fd := method(f, "combinedHandler[I]", "FinalizerRemoval"); fd != nil && fd.Body != nil && len(fd.Body.List) == 2 {
		if rs := rangeOver(fd.Body.List[0], "c.handlers"); rs != nil && src(rs.Value) == "handler" && len(rs.Body.List) == 2 &&
			src(rs.Body.List[0]) == "err := handler.FinalizerRemoval(ctx, runtime, logger, input)" &&
			src(rs.Body.List[1]) == "if err != nil { return err }" &&
			src(fd.Body.List[1]) == "return nil" {
			combine = ".firstNonNil"
		}
	}

	release := ".unknown"

	if fd := method(f, "Controller[I]", "processInput"); fd != nil && fd.Body != nil {
		var clause *ast.CaseClause

		ast.Inspect(fd.Body, func(n ast.Node) bool {
			if cc, ok := n.(*ast.CaseClause); ok && len(cc.List) == 1 && src(cc.List[0]) == "resource.PhaseTearingDown" {
				clause = cc
			}

			return true
		})

		if clause != nil && len(clause.Body) == 5 && strings.Count(src(fd.Body), "RemoveFinalizer(") == 1 {
			b := clause.Body
			sw := src(b[2])

			if src(b[0]) == "if !inputElem.Metadata().Finalizers().Has(ctrl.Name()) { return nil }" &&
				src(b[1]) == "err := ctrl.handler.FinalizerRemoval(ctx, r, logger, inputElem)" &&
				strings.HasPrefix(sw, "switch { case xerrors.TagIs[SkipReconcileTag](err): return nil case err != nil: return fmt.Errorf(") &&
				strings.HasPrefix(src(b[3]), "if err := r.RemoveFinalizer(ctx, inputElem.Metadata(), ctrl.Name()); err != nil { return ") &&
				strings.HasPrefix(src(b[4]), "l.Info(") {
				if s, ok := b[2].(*ast.SwitchStmt); ok && s.Tag == nil && s.Init == nil && len(s.Body.List) == 2 {
					release = ".onlyOnNil"
				}
			}
		}
	}

	l.line("/-- cleanup.combinedHandler.FinalizerRemoval: the loop returns the first non-nil sub-handler result, nil at the end -/")
	l.line("def cleanupCombine : CombineRule := %s", combine)
	l.line("/-- cleanup.processInput, tearing-down input with the finalizer: tagged → return nil, error → return it, nil → RemoveFinalizer -/")
	l.line("def cleanupRelease : CleanupReleaseRule := %s", release)
}
