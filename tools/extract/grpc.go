package main

import (
	"fmt"
	"go/ast"
	"go/token"
	"path/filepath"
	"strconv"
	"strings"
)

// genGrpc regenerates Cosi/Gen/Grpc.lean (property C11) from
//
//	pkg/state/protobuf/server/server.go   handlers of *State, mapEvent
//	pkg/state/protobuf/server/helpers.go  ConvertLabelQuery
//	pkg/state/protobuf/client/client.go   methods of *Adapter, updateResourceMetadata
//	pkg/state/protobuf/client/errors.go   error types and their marker methods
//
// Every table is emitted; a shape that is not recognised becomes `.unknown` in the entry
// concerned (`false` for the structural booleans).
func genGrpc(repo, out string) {
	const ns = "Cosi.Gen.Grpc"

	l := newLean("Grpc.lean", ns)

	sf := parse(filepath.Join(repo, "pkg/state/protobuf/server/server.go"))
	hf := parse(filepath.Join(repo, "pkg/state/protobuf/server/helpers.go"))
	cf := parse(filepath.Join(repo, "pkg/state/protobuf/client/client.go"))
	ef := parse(filepath.Join(repo, "pkg/state/protobuf/client/errors.go"))

	rpcs := []string{"Get", "List", "Create", "Update", "Destroy", "Teardown", "TeardownAndDestroy", "Watch"}
	owned := []string{"Create", "Update", "Destroy", "Teardown", "TeardownAndDestroy"}
	sticky := []string{"Teardown", "TeardownAndDestroy"}

	boolFn := func(name string, order []string, val func(string) bool) {
		l.line("def %s : Rpc → Bool", name)

		for _, m := range order {
			if val(m) {
				l.line("  | %s => true", gRpcName(m))
			}
		}

		l.line("  | _ => false")
	}

	// ---- 1. server error switch -----------------------------------------------------
	l.line("/-- server/server.go: per handler the arms of the `switch { case state.IsXError(err): return status.Error(codes.Y, ..) }` after the wrapped call, in source order -/")
	l.line("def srvCode : Rpc → List (ErrPred × Code)")

	for _, m := range rpcs {
		l.line("  | %s => %s", gRpcName(m), leanList(gSrvRows(method(sf, "State", m))))
	}

	l.line("  | .unknown => []")

	// ---- 2. client error switch -----------------------------------------------------
	classes := gErrClasses(ef)

	l.line("/-- client/client.go: per method the arms of `switch status.Code(err)`, in source order; the error class is the marker method (client/errors.go) of the returned error type -/")
	l.line("def cliClass : Rpc → List (Code × ErrClass)")

	for _, m := range rpcs {
		var rows []string

		if m == "Watch" {
			rows = gCliRows(method(cf, "Adapter", "Watch"), "Watch", classes)

			for _, w := range []string{"WatchKind", "WatchKindAggregated"} {
				if leanList(gCliRows(method(cf, "Adapter", w), w, classes)) != leanList(rows) {
					rows = []string{"(.unknown, .unknown)"}
				}
			}
		} else {
			rows = gCliRows(method(cf, "Adapter", m), m, classes)
		}

		l.line("  | %s => %s", gRpcName(m), leanList(rows))
	}

	l.line("  | .unknown => []")

	// ---- 3. unchecked dereferences --------------------------------------------------
	l.line("/-- nil-able request fields a handler dereferences without a nil check (a field selected on the result of a `GetX()` getter outside an `if ...GetX() != nil` guard) -/")
	l.line("def derefUnchecked : Rpc → List ReqField")

	for _, m := range rpcs {
		if fields := gDeref(method(sf, "State", m)); len(fields) > 0 {
			l.line("  | %s => %s", gRpcName(m), leanList(fields))
		}
	}

	l.line("  | _ => []")

	// ---- 4. ConvertLabelQuery -------------------------------------------------------
	l.line("/-- server/helpers.go ConvertLabelQuery checks `len(term.Value)` before any `term.Value[0]` -/")
	l.line("def valueGuarded : Bool := %s", leanBool(gValueGuarded(method(hf, "", "ConvertLabelQuery"))))

	// ---- 5, 6. owner option ---------------------------------------------------------
	l.line("/-- the handler passes `req.GetOptions().GetOwner()` to the wrapped call as its owner option -/")
	boolFn("srvOwnerFromOptions", owned, func(m string) bool {
		return gHasCall(gBody(method(sf, "State", m)), "state.With"+m+"Owner(req.GetOptions().GetOwner())")
	})

	l.line("/-- the client method sends `Options: &XOptions{Owner: opts.Owner, ..}` -/")
	boolFn("cliOwnerInOptions", owned, func(m string) bool {
		opts := gOptionsLit(method(cf, "Adapter", m), m)

		return opts != nil && src(gLitField(opts, "Owner")) == "opts.Owner"
	})

	// ---- 7, 8. expected phase -------------------------------------------------------
	l.line("/-- server Update: `ExpectedPhase == nil` ⇒ WithExpectedPhaseAny, else ParsePhase (error returned) + WithExpectedPhase -/")
	l.line("def srvExpectedPhase : Bool := %s", leanBool(gSrvExpectedPhase(method(sf, "State", "Update"))))
	l.line("/-- client Update: `opts.ExpectedPhase != nil` ⇒ the phase's String() is sent, else the field stays nil -/")
	l.line("def cliExpectedPhase : Bool := %s", leanBool(gCliExpectedPhase(method(cf, "Adapter", "Update"))))

	// ---- 9, 10. write-back ----------------------------------------------------------
	l.line("/-- client updateResourceMetadata: the metadata fields set on the caller's object, in order -/")
	l.line("def writeBack : List WbField := %s", leanList(gWriteBack(method(cf, "", "updateResourceMetadata"))))
	l.line("/-- the client method ends in `return updateResourceMetadata(resp.GetResource(), <its resource argument>)` -/")
	boolFn("cliWritesBack", []string{"Create", "Update"}, func(m string) bool {
		return gCliWritesBack(method(cf, "Adapter", m), m)
	})

	// ---- 11. sticky fallback --------------------------------------------------------
	l.line("/-- the client method starts with `if adapter.<x>NotSupported.Load() { return adapter.<x>Fallback(..) }` before the RPC -/")
	boolFn("stickyLoad", sticky, func(m string) bool { return gStickyLoad(method(cf, "Adapter", m), m) })
	l.line("/-- the `codes.Unimplemented` arm does `adapter.<x>NotSupported.Store(true)` and returns the fallback -/")
	boolFn("stickyStore", sticky, func(m string) bool { return gStickyStore(method(cf, "Adapter", m), m) })
	l.line("/-- the fallback runs `state.WrapCore(adapterCoreView{adapter}).<X>(ctx, ptr, state.With<X>Owner(opts.Owner))` -/")
	boolFn("fallbackOwner", sticky, func(m string) bool {
		body := gBody(method(cf, "Adapter", gLowerFirst(m)+"Fallback"))

		return len(body.List) == 1 &&
			src(body.List[0]) == "return state.WrapCore(adapterCoreView{adapter})."+m+"(ctx, resourcePointer, state.With"+m+"Owner(opts.Owner))"
	})

	// ---- 12. events -----------------------------------------------------------------
	mapEvent := method(sf, "", "mapEvent")
	watchAdapter := method(cf, "Adapter", "watchAdapter")

	l.line("/-- server mapEvent: `switch event.Type` -/")
	l.line("def srvEventMap : List (EvT × WireEv) := %s", leanList(gEventMap(mapEvent, "event.Type", "eventType", gEvT, gWireEv)))
	l.line("/-- client watchAdapter: `switch msgEvent.EventType` -/")
	l.line("def cliEventMap : List (WireEv × EvT) := %s", leanList(gEventMap(watchAdapter, "msgEvent.EventType", "event.Type", gWireEv, gEvT)))
	l.line("/-- server mapEvent: event types dropped for `apiVersion < 1` -/")
	l.line("def legacySkip : List EvT := %s", leanList(gLegacySkip(mapEvent)))
	l.line("/-- mapEvent marshals Resource / Old exactly when non-nil and copies Bookmark; watchAdapter unmarshals Resource / Old exactly when non-nil and copies Bookmark -/")
	l.line("def eventCopies : Bool := %s", leanBool(gSrvEventCopies(mapEvent) && gCliEventCopies(watchAdapter)))

	// ---- 13. watch plumbing: dispatch on the id field, what the client puts on the wire ----
	l.line("/-- server Watch: the condition of the `if` whose then-branch calls WatchKind / WatchKindAggregated and whose else-branch calls Watch -/")
	l.line("def watchDispatch : WatchDispatch := %s", gWatchDispatch(method(sf, "State", "Watch")))

	calls := [][2]string{{"Watch", ".watch"}, {"WatchKind", ".watchKind"}, {"WatchKindAggregated", ".watchKindAggregated"}}

	l.line("/-- client: `ApiVersion:` of the `req := &v1alpha1.WatchRequest{..}` literal the method sends unchanged (field absent = 0; not an integer literal, or `req` touched again = -1) -/")
	l.line("def cliApiVersion : WatchCall → Int")

	for _, c := range calls {
		l.line("  | %s => %s", c[1], gCliApiVersion(method(cf, "Adapter", c[0])))
	}

	l.line("/-- client: `Id:` of that literal -/")
	l.line("def cliIdField : WatchCall → IdField")

	for _, c := range calls {
		l.line("  | %s => %s", c[1], gCliIdField(method(cf, "Adapter", c[0])))
	}

	l.write(out, ns)
}

// gWatchDispatch: server Watch has exactly one `if c { … WatchKind … } else { … server.state.Watch … }`.
func gWatchDispatch(fd *ast.FuncDecl) string {
	res, found := ".unknown", 0

	for _, st := range gBody(fd).List {
		is, ok := st.(*ast.IfStmt)
		if !ok || is.Init != nil || is.Else == nil {
			continue
		}

		els, ok := is.Else.(*ast.BlockStmt)
		if !ok {
			continue
		}

		thenKind := gHasCallPrefix(is.Body, "server.state.WatchKind(") && gHasCallPrefix(is.Body, "server.state.WatchKindAggregated(") &&
			!gHasCallPrefix(is.Body, "server.state.Watch(")
		elseSingle := gHasCallPrefix(els, "server.state.Watch(") && !gHasCallPrefix(els, "server.state.WatchKind(") &&
			!gHasCallPrefix(els, "server.state.WatchKindAggregated(") &&
			gHasCallPrefix(els, "resource.NewMetadata(req.GetNamespace(), req.GetType(), req.GetId(), resource.VersionUndefined)")

		if !thenKind || !elseSingle {
			continue
		}

		found++

		switch src(is.Cond) {
		case "req.Id == nil":
			res = ".idAbsent"
		case `req.GetId() == ""`, `req.GetId() == "" || req.Id == nil`, `req.Id == nil || req.GetId() == ""`, `len(req.GetId()) == 0`:
			res = ".idEmpty"
		default:
			res = ".unknown"
		}
	}

	if found != 1 {
		return ".unknown"
	}

	return res
}

// gHasCallPrefix: some call expression under n whose source text starts with prefix.
func gHasCallPrefix(n ast.Node, prefix string) bool {
	found := false

	ast.Inspect(n, func(x ast.Node) bool {
		if c, ok := x.(*ast.CallExpr); ok && strings.HasPrefix(src(c), prefix) {
			found = true
		}

		return true
	})

	return found
}

// gWatchReqLit: the literal of `req := &v1alpha1.WatchRequest{..}` in a client watch method, provided that
// `req` is what goes to `adapter.client.Watch(ctx, req)` and nothing else assigns `req` or a field of it.
func gWatchReqLit(fd *ast.FuncDecl) *ast.CompositeLit {
	var lit *ast.CompositeLit

	defs, touched, sent := 0, 0, 0

	ast.Inspect(gBody(fd), func(x ast.Node) bool {
		switch n := x.(type) {
		case *ast.AssignStmt:
			for i, lhs := range n.Lhs {
				t := src(lhs)

				switch {
				case t == "req" && n.Tok == token.DEFINE && len(n.Lhs) == 1 && len(n.Rhs) == 1:
					defs++

					if _, ok := n.Rhs[i].(*ast.UnaryExpr); ok {
						lit = gLit(n.Rhs[i], "v1alpha1.WatchRequest")
					}
				case t == "req" || strings.HasPrefix(t, "req.") || strings.HasPrefix(t, "*req"):
					touched++
				}
			}
		case *ast.IncDecStmt:
			if strings.HasPrefix(src(n.X), "req.") {
				touched++
			}
		case *ast.CallExpr:
			if src(n) == "adapter.client.Watch(ctx, req)" {
				sent++
			}
		}

		return true
	})

	if defs != 1 || touched != 0 || sent != 1 {
		return nil
	}

	return lit
}

func gCliApiVersion(fd *ast.FuncDecl) string {
	lit := gWatchReqLit(fd)
	if lit == nil {
		return "(-1)"
	}

	keyed, seen := true, 0

	var val ast.Expr

	for _, el := range lit.Elts {
		kv, ok := el.(*ast.KeyValueExpr)
		if !ok {
			keyed = false

			continue
		}

		if src(kv.Key) == "ApiVersion" {
			seen++
			val = kv.Value
		}
	}

	switch {
	case !keyed || seen > 1:
		return "(-1)"
	case seen == 0:
		return "0"
	}

	bl, ok := val.(*ast.BasicLit)
	if !ok || bl.Kind != token.INT {
		return "(-1)"
	}

	n, err := strconv.ParseInt(bl.Value, 0, 32)
	if err != nil || n < 0 {
		return "(-1)"
	}

	return strconv.FormatInt(n, 10)
}

func gCliIdField(fd *ast.FuncDecl) string {
	lit := gWatchReqLit(fd)
	if lit == nil {
		return ".unknown"
	}

	seen := 0

	var val ast.Expr

	for _, el := range lit.Elts {
		kv, ok := el.(*ast.KeyValueExpr)
		if !ok {
			return ".unknown"
		}

		if src(kv.Key) == "Id" {
			seen++
			val = kv.Value
		}
	}

	switch {
	case seen == 0:
		return ".absent"
	case seen == 1 && src(val) == "new(resourcePointer.ID())":
		return ".pointerId"
	}

	return ".unknown"
}

// ---- vocabulary ---------------------------------------------------------------------

func gRpcName(m string) string { return "." + gLowerFirst(m) }

func gLowerFirst(s string) string {
	if s == "" {
		return s
	}

	return strings.ToLower(s[:1]) + s[1:]
}

func gLookup(m map[string]string, text string) string {
	if v, ok := m[text]; ok {
		return v
	}

	return ".unknown"
}

func gCode(text string) string {
	return gLookup(map[string]string{
		"codes.NotFound": ".notFound", "codes.PermissionDenied": ".permissionDenied", "codes.AlreadyExists": ".alreadyExists",
		"codes.InvalidArgument": ".invalidArgument", "codes.FailedPrecondition": ".failedPrecondition", "codes.Unimplemented": ".unimplemented",
	}, text)
}

func gPred(text string) string {
	return gLookup(map[string]string{
		"state.IsNotFoundError(err)": ".isNotFound", "state.IsOwnerConflictError(err)": ".isOwnerConflict",
		"state.IsPhaseConflictError(err)": ".isPhaseConflict", "state.IsConflictError(err)": ".isConflict",
		"state.IsInvalidWatchBookmarkError(err)": ".isInvalidBookmark", "err != nil": ".nonNil",
	}, text)
}

func gEvT(text string) string {
	return gLookup(map[string]string{
		"state.Created": ".created", "state.Updated": ".updated", "state.Destroyed": ".destroyed",
		"state.Bootstrapped": ".bootstrapped", "state.Errored": ".errored", "state.Noop": ".noop",
	}, text)
}

func gWireEv(text string) string {
	return gLookup(map[string]string{
		"v1alpha1.EventType_CREATED": ".created", "v1alpha1.EventType_UPDATED": ".updated", "v1alpha1.EventType_DESTROYED": ".destroyed",
		"v1alpha1.EventType_BOOTSTRAPPED": ".bootstrapped", "v1alpha1.EventType_ERRORED": ".errored", "v1alpha1.EventType_NOOP": ".noop",
	}, text)
}

// ---- generic AST helpers ------------------------------------------------------------

// gBody is the body of a function; an empty block if the function (or its body) is missing.
func gBody(fd *ast.FuncDecl) *ast.BlockStmt {
	if fd == nil || fd.Body == nil {
		return &ast.BlockStmt{}
	}

	return fd.Body
}

// gWalk visits every node below root together with its ancestors (outermost first).
func gWalk(root ast.Node, visit func(n ast.Node, stack []ast.Node)) {
	var stack []ast.Node

	ast.Inspect(root, func(n ast.Node) bool {
		if n == nil {
			stack = stack[:len(stack)-1]

			return true
		}

		visit(n, stack)
		stack = append(stack, n)

		return true
	})
}

func gWithin(n, outer ast.Node) bool { return n.Pos() >= outer.Pos() && n.End() <= outer.End() }

// gHasCall: the node contains a call whose text is exactly `text`.
func gHasCall(n ast.Node, text string) bool {
	found := false

	ast.Inspect(n, func(x ast.Node) bool {
		if c, ok := x.(*ast.CallExpr); ok && src(c) == text {
			found = true
		}

		return !found
	})

	return found
}

// gSingleReturn: the statement list is exactly one return statement.
func gSingleReturn(stmts []ast.Stmt) *ast.ReturnStmt {
	if len(stmts) != 1 {
		return nil
	}

	r, _ := stmts[0].(*ast.ReturnStmt)

	return r
}

// gErrAssign matches `..., err (:= | =) <call>` and returns the call.
func gErrAssign(st ast.Stmt) (*ast.AssignStmt, *ast.CallExpr) {
	as, ok := st.(*ast.AssignStmt)
	if !ok || len(as.Rhs) != 1 || len(as.Lhs) == 0 || src(as.Lhs[len(as.Lhs)-1]) != "err" {
		return nil, nil
	}

	call, ok := as.Rhs[0].(*ast.CallExpr)
	if !ok {
		return nil, nil
	}

	return as, call
}

// gPlainIf matches `if <cond> { ... }` without init and without else.
func gPlainIf(st ast.Stmt, cond string) *ast.IfStmt {
	is, ok := st.(*ast.IfStmt)
	if !ok || is.Init != nil || is.Else != nil || is.Body == nil || src(is.Cond) != cond {
		return nil
	}

	return is
}

// gLit strips one `&` and returns the composite literal if its type text is typ.
func gLit(e ast.Expr, typ string) *ast.CompositeLit {
	if u, ok := e.(*ast.UnaryExpr); ok && u.Op == token.AND {
		e = u.X
	}

	cl, ok := e.(*ast.CompositeLit)
	if !ok || cl.Type == nil || src(cl.Type) != typ {
		return nil
	}

	return cl
}

// gLitField gives the value of `key: value` in a keyed composite literal; nil if the
// literal is not fully keyed, or the key is absent or duplicated.
func gLitField(cl *ast.CompositeLit, key string) ast.Expr {
	var val ast.Expr

	if cl == nil {
		return nil
	}

	for _, el := range cl.Elts {
		kv, ok := el.(*ast.KeyValueExpr)
		if !ok {
			return nil
		}

		if src(kv.Key) == key {
			if val != nil {
				return nil
			}

			val = kv.Value
		}
	}

	return val
}

// gAssignCount counts the assignments (and initialised declarations) of the given target text.
func gAssignCount(n ast.Node, target string) int {
	count := 0

	ast.Inspect(n, func(x ast.Node) bool {
		switch s := x.(type) {
		case *ast.AssignStmt:
			for _, lhs := range s.Lhs {
				if src(lhs) == target {
					count++
				}
			}
		case *ast.ValueSpec:
			for _, name := range s.Names {
				if name.Name == target && len(s.Values) > 0 {
					count++
				}
			}
		case *ast.IncDecStmt:
			if src(s.X) == target {
				count++
			}
		case *ast.RangeStmt:
			if (s.Key != nil && src(s.Key) == target) || (s.Value != nil && src(s.Value) == target) {
				count++
			}
		}

		return true
	})

	return count
}

// gDisjuncts flattens `a || b || c`.
func gDisjuncts(e ast.Expr) []ast.Expr {
	if p, ok := e.(*ast.ParenExpr); ok {
		return gDisjuncts(p.X)
	}

	if b, ok := e.(*ast.BinaryExpr); ok && b.Op == token.LOR {
		return append(gDisjuncts(b.X), gDisjuncts(b.Y)...)
	}

	return []ast.Expr{e}
}

// gHasConjunct: e is `want`, or a `&&` chain one of whose operands is `want`.
func gHasConjunct(e ast.Expr, want string) bool {
	if p, ok := e.(*ast.ParenExpr); ok {
		return gHasConjunct(p.X, want)
	}

	if b, ok := e.(*ast.BinaryExpr); ok && b.Op == token.LAND {
		return gHasConjunct(b.X, want) || gHasConjunct(b.Y, want)
	}

	return e != nil && src(e) == want
}

// ---- 1. server error switch ---------------------------------------------------------

// gSrvSwitch finds the tag-less error switch of a handler: every call into the wrapped
// state must be assigned to `err`, and the statement right after the last top-level
// statement containing such a call must be the switch, or `if err != nil { switch {..} }`.
func gSrvSwitch(fd *ast.FuncDecl) (sw *ast.SwitchStmt, inErrIf bool) {
	body := gBody(fd)

	wrapped := func(c *ast.CallExpr) bool {
		sel, ok := c.Fun.(*ast.SelectorExpr)
		if !ok {
			return false
		}

		x := src(sel.X)

		return x == "server.state" || x == "state.WrapCore(server.state)"
	}

	total, assigned := 0, 0

	ast.Inspect(body, func(n ast.Node) bool {
		switch x := n.(type) {
		case *ast.CallExpr:
			if wrapped(x) {
				total++
			}
		case ast.Stmt:
			if _, call := gErrAssign(x); call != nil && wrapped(call) {
				assigned++
			}
		}

		return true
	})

	if total == 0 || total != assigned {
		return nil, false
	}

	last := -1

	for i, st := range body.List {
		has := false

		ast.Inspect(st, func(n ast.Node) bool {
			if c, ok := n.(*ast.CallExpr); ok && wrapped(c) {
				has = true
			}

			return !has
		})

		if has {
			last = i
		}
	}

	if last < 0 || last+1 >= len(body.List) {
		return nil, false
	}

	tagless := func(st ast.Stmt) *ast.SwitchStmt {
		s, ok := st.(*ast.SwitchStmt)
		if !ok || s.Tag != nil || s.Init != nil || s.Body == nil {
			return nil
		}

		return s
	}

	next := body.List[last+1]

	if s := tagless(next); s != nil {
		return s, false
	}

	if is := gPlainIf(next, "err != nil"); is != nil && len(is.Body.List) == 1 {
		if s := tagless(is.Body.List[0]); s != nil {
			return s, true
		}
	}

	return nil, false
}

func gSrvRows(fd *ast.FuncDecl) []string {
	unknown := []string{"(.unknown, .unknown)"}

	sw, inErrIf := gSrvSwitch(fd)
	if sw == nil {
		return unknown
	}

	var rows []string

	mentionsErr := false

	for i, c := range sw.Body.List {
		cc, ok := c.(*ast.CaseClause)
		if !ok {
			return unknown
		}

		code := ".unknown"

		if r := gSingleReturn(cc.Body); r != nil && len(r.Results) > 0 {
			switch last := r.Results[len(r.Results)-1].(type) {
			case *ast.Ident:
				if last.Name == "err" {
					code = ".unclassified"
				}
			case *ast.CallExpr:
				if src(last.Fun) == "status.Error" && len(last.Args) == 2 && !last.Ellipsis.IsValid() {
					code = gCode(src(last.Args[0]))
				}
			}
		}

		if cc.List == nil {
			// `default:` means "any remaining error" only as the last arm of a switch that
			// is itself under `if err != nil`
			pred := ".unknown"

			if inErrIf && i == len(sw.Body.List)-1 {
				pred = ".nonNil"
				mentionsErr = true
			}

			rows = append(rows, fmt.Sprintf("(%s, %s)", pred, code))

			continue
		}

		for _, e := range cc.List {
			text := src(e)
			if strings.Contains(text, "err") {
				mentionsErr = true
			}

			rows = append(rows, fmt.Sprintf("(%s, %s)", gPred(text), code))
		}
	}

	if len(rows) == 0 || !mentionsErr {
		return unknown
	}

	return rows
}

// ---- 2. client error switch ---------------------------------------------------------

var gWatchMethods = map[string]bool{"Watch": true, "WatchKind": true, "WatchKindAggregated": true}

// gRPCAssign finds the first top-level `..., err := adapter.client.<M>(..)` of a client
// method (for the watch methods: `_, err = cli.Recv()`), and its index in the body.
func gRPCAssign(fd *ast.FuncDecl, m string) (*ast.AssignStmt, *ast.CallExpr, int) {
	for i, st := range gBody(fd).List {
		as, call := gErrAssign(st)
		if call == nil {
			continue
		}

		if gWatchMethods[m] {
			if src(call) == "cli.Recv()" {
				return as, call, i
			}
		} else if src(call.Fun) == "adapter.client."+m {
			return as, call, i
		}
	}

	return nil, nil, -1
}

// gCliSwitch finds `if err != nil { switch status.Code(err) {..} }` right after the RPC.
func gCliSwitch(fd *ast.FuncDecl, m string) *ast.SwitchStmt {
	body := gBody(fd)

	_, _, i := gRPCAssign(fd, m)
	if i < 0 || i+1 >= len(body.List) {
		return nil
	}

	is := gPlainIf(body.List[i+1], "err != nil")
	if is == nil || len(is.Body.List) != 1 {
		return nil
	}

	sw, ok := is.Body.List[0].(*ast.SwitchStmt)
	if !ok || sw.Init != nil || sw.Tag == nil || sw.Body == nil || src(sw.Tag) != "status.Code(err)" {
		return nil
	}

	return sw
}

// gIsFallbackArm: `adapter.<x>NotSupported.Store(true)` then `return adapter.<x>Fallback(ctx, resourcePointer, opts)`.
func gIsFallbackArm(stmts []ast.Stmt, m string) bool {
	if m != "Teardown" && m != "TeardownAndDestroy" {
		return false
	}

	x := gLowerFirst(m)

	return len(stmts) == 2 &&
		src(stmts[0]) == "adapter."+x+"NotSupported.Store(true)" &&
		src(stmts[1]) == "return adapter."+x+"Fallback(ctx, resourcePointer, opts)"
}

func gCliRows(fd *ast.FuncDecl, m string, classes map[string]string) []string {
	unknown := []string{"(.unknown, .unknown)"}

	sw := gCliSwitch(fd, m)
	if sw == nil {
		return unknown
	}

	var rows []string

	for i, c := range sw.Body.List {
		cc, ok := c.(*ast.CaseClause)
		if !ok {
			return unknown
		}

		class := ".unknown"

		if r := gSingleReturn(cc.Body); r != nil && len(r.Results) > 0 {
			switch last := r.Results[len(r.Results)-1].(type) {
			case *ast.Ident:
				if last.Name == "err" {
					class = ".other"
				}
			case *ast.CompositeLit:
				if t, ok := last.Type.(*ast.Ident); ok {
					class = gLookup(classes, t.Name)
				}
			}
		} else if gIsFallbackArm(cc.Body, m) {
			class = ".fallback"
		}

		if cc.List == nil {
			code := ".unknown"
			if i == len(sw.Body.List)-1 {
				code = ".any"
			}

			rows = append(rows, fmt.Sprintf("(%s, %s)", code, class))

			continue
		}

		for _, e := range cc.List {
			rows = append(rows, fmt.Sprintf("(%s, %s)", gCode(src(e)), class))
		}
	}

	if len(rows) == 0 {
		return unknown
	}

	return rows
}

// gErrClasses maps every struct type of client/errors.go to the class of its single
// marker method (declared on the type itself, not promoted).
func gErrClasses(f *ast.File) map[string]string {
	markers := map[string]string{
		"NotFoundError": ".notFound", "OwnerConflictError": ".ownerConflict", "PhaseConflictError": ".phaseConflict",
		"ConflictError": ".conflict", "InvalidWatchBookmarkError": ".invalidBookmark",
	}

	declared := map[string]int{}
	embeds := map[string]map[string]bool{}
	own := map[string][]string{}

	for _, d := range f.Decls {
		switch x := d.(type) {
		case *ast.GenDecl:
			for _, s := range x.Specs {
				ts, ok := s.(*ast.TypeSpec)
				if !ok {
					continue
				}

				declared[ts.Name.Name]++

				st, ok := ts.Type.(*ast.StructType)
				if !ok || ts.Assign.IsValid() || ts.TypeParams != nil || st.Fields == nil {
					declared[ts.Name.Name] += 2 // not a plain struct type

					continue
				}

				embeds[ts.Name.Name] = map[string]bool{}

				for _, fld := range st.Fields.List {
					if len(fld.Names) == 0 {
						embeds[ts.Name.Name][src(fld.Type)] = true
					}
				}
			}
		case *ast.FuncDecl:
			if x.Recv == nil || len(x.Recv.List) != 1 {
				continue
			}

			class, ok := markers[x.Name.Name]
			if !ok {
				continue
			}

			if x.Type.Params != nil && len(x.Type.Params.List) > 0 || x.Type.Results != nil && len(x.Type.Results.List) > 0 {
				class = ".unknown"
			}

			t := x.Recv.List[0].Type
			if star, ok := t.(*ast.StarExpr); ok {
				t = star.X
			}

			if id, ok := t.(*ast.Ident); ok {
				own[id.Name] = append(own[id.Name], class)
			}
		}
	}

	classes := map[string]string{}

	for name, n := range declared {
		if n != 1 || len(own[name]) != 1 {
			classes[name] = ".unknown"

			continue
		}

		classes[name] = own[name][0]
	}

	// an owner / phase conflict must also be a conflict: it embeds eConflict, which carries ConflictError
	for name, class := range classes {
		if class == ".ownerConflict" || class == ".phaseConflict" {
			if !embeds[name]["eConflict"] || classes["eConflict"] != ".conflict" {
				classes[name] = ".unknown"
			}
		}
	}

	return classes
}

// ---- 3. unchecked dereferences ------------------------------------------------------

func gDeref(fd *ast.FuncDecl) []string {
	if fd == nil || fd.Body == nil {
		return []string{".unknown"}
	}

	fields := map[string]string{
		"GetOptions": ".options", "GetResource": ".resource", "GetNewResource": ".newResource", "GetIdQuery": ".idQuery", "GetId": ".id",
	}

	var res []string

	seen := map[string]bool{}

	gWalk(fd.Body, func(n ast.Node, stack []ast.Node) {
		se, ok := n.(*ast.SelectorExpr)
		if !ok {
			return
		}

		call, ok := se.X.(*ast.CallExpr)
		if !ok {
			return
		}

		getter, ok := call.Fun.(*ast.SelectorExpr)
		if !ok || !strings.HasPrefix(getter.Sel.Name, "Get") {
			return
		}

		// `x.GetY().GetZ()`: generated getters are nil-safe
		if len(stack) > 0 && strings.HasPrefix(se.Sel.Name, "Get") {
			if p, ok := stack[len(stack)-1].(*ast.CallExpr); ok && p.Fun == ast.Expr(se) {
				return
			}
		}

		// inside `if x.GetY() != nil { .. }`
		want := src(call) + " != nil"

		for _, a := range stack {
			if is, ok := a.(*ast.IfStmt); ok && is.Body != nil && gWithin(se, is.Body) && gHasConjunct(is.Cond, want) {
				return
			}
		}

		// right of a short-circuit: `x.GetY() == nil || ..x.GetY().F..`, `x.GetY() != nil && ..x.GetY().F..`
		for _, a := range stack {
			b, ok := a.(*ast.BinaryExpr)
			if !ok || !gWithin(se, b.Y) {
				continue
			}

			switch b.Op { //nolint:exhaustive
			case token.LOR:
				for _, d := range gDisjuncts(b.X) {
					if src(d) == src(call)+" == nil" {
						return
					}
				}
			case token.LAND:
				if gHasConjunct(b.X, want) {
					return
				}
			}
		}

		field := ".unknown"
		if len(call.Args) == 0 {
			field = gLookup(fields, getter.Sel.Name)
		}

		if !seen[field] {
			seen[field] = true
			res = append(res, field)
		}
	})

	return res
}

// ---- 4. ConvertLabelQuery -----------------------------------------------------------

// gLenCond: the condition (or one of its `||` operands) implies, when false, that
// len(term.Value) > idx.
func gLenCond(e ast.Expr, idx int) bool {
	for _, d := range gDisjuncts(e) {
		b, ok := d.(*ast.BinaryExpr)
		if !ok || src(b.X) != "len(term.Value)" {
			continue
		}

		lit, ok := b.Y.(*ast.BasicLit)
		if !ok || lit.Kind != token.INT {
			continue
		}

		k, err := strconv.Atoi(lit.Value)
		if err != nil {
			continue
		}

		switch b.Op { //nolint:exhaustive
		case token.EQL:
			if k == 0 && idx == 0 {
				return true
			}
		case token.LSS, token.NEQ:
			if k > idx {
				return true
			}
		case token.LEQ:
			if k >= idx {
				return true
			}
		}
	}

	return false
}

func gEndsInErrorReturn(stmts []ast.Stmt) bool {
	if len(stmts) == 0 {
		return false
	}

	r, ok := stmts[len(stmts)-1].(*ast.ReturnStmt)

	return ok && len(r.Results) > 0 && src(r.Results[len(r.Results)-1]) != "nil"
}

// gIsLenGuard: `if <len cond> { ..; return .., <error> }`, or a tag-less switch whose first
// arm is `case <len cond>: ..; return .., <error>`.
func gIsLenGuard(st ast.Stmt, idx int) bool {
	switch s := st.(type) {
	case *ast.IfStmt:
		return s.Init == nil && s.Else == nil && s.Body != nil && gLenCond(s.Cond, idx) && gEndsInErrorReturn(s.Body.List)
	case *ast.SwitchStmt:
		if s.Init != nil || s.Tag != nil || s.Body == nil || len(s.Body.List) == 0 {
			return false
		}

		cc, ok := s.Body.List[0].(*ast.CaseClause)
		if !ok || len(cc.List) == 0 || !gEndsInErrorReturn(cc.Body) {
			return false
		}

		for _, e := range cc.List {
			if gLenCond(e, idx) {
				return true
			}
		}
	}

	return false
}

func gValueGuarded(fd *ast.FuncDecl) bool {
	if fd == nil || fd.Body == nil {
		return false
	}

	guarded := true

	gWalk(fd.Body, func(n ast.Node, stack []ast.Node) {
		if sl, ok := n.(*ast.SliceExpr); ok && src(sl.X) == "term.Value" {
			guarded = false

			return
		}

		ix, ok := n.(*ast.IndexExpr)
		if !ok || src(ix.X) != "term.Value" {
			return
		}

		lit, ok := ix.Index.(*ast.BasicLit)
		if !ok || lit.Kind != token.INT {
			guarded = false

			return
		}

		idx, err := strconv.Atoi(lit.Value)
		if err != nil {
			guarded = false

			return
		}

		// look for a guard among the earlier statements of the enclosing blocks, not
		// further out than the body of the innermost loop
		for i := len(stack) - 1; i >= 0; i-- {
			var list []ast.Stmt

			switch a := stack[i].(type) {
			case *ast.BlockStmt:
				list = a.List
			case *ast.CaseClause:
				list = a.Body
			case *ast.CommClause:
				list = a.Body
			case *ast.ForStmt, *ast.RangeStmt, *ast.FuncLit:
				guarded = false

				return
			}

			for _, st := range list {
				if gWithin(ix, st) {
					break
				}

				if gIsLenGuard(st, idx) {
					return
				}
			}
		}

		guarded = false
	})

	return guarded
}

// ---- 6. client request literal ------------------------------------------------------

// gRequestLit is the `&v1alpha1.<M>Request{..}` argument of `adapter.client.<M>(ctx, ..)`.
func gRequestLit(fd *ast.FuncDecl, m string) *ast.CompositeLit {
	_, call, _ := gRPCAssign(fd, m)
	if call == nil || len(call.Args) != 2 || call.Ellipsis.IsValid() {
		return nil
	}

	if _, ok := call.Args[1].(*ast.UnaryExpr); !ok {
		return nil
	}

	return gLit(call.Args[1], "v1alpha1."+m+"Request")
}

// gOptionsLit is the `Options: &v1alpha1.<M>Options{..}` literal inside the request literal.
func gOptionsLit(fd *ast.FuncDecl, m string) *ast.CompositeLit {
	v := gLitField(gRequestLit(fd, m), "Options")
	if _, ok := v.(*ast.UnaryExpr); !ok {
		return nil
	}

	return gLit(v, "v1alpha1."+m+"Options")
}

// ---- 7, 8. expected phase -----------------------------------------------------------

func gSrvExpectedPhase(fd *ast.FuncDecl) bool {
	const field = "req.GetOptions().ExpectedPhase"

	body := gBody(fd)

	// `<v> := req.GetOptions().ExpectedPhase`
	localDef := func(st ast.Stmt) string {
		as, ok := st.(*ast.AssignStmt)
		if !ok || as.Tok != token.DEFINE || len(as.Lhs) != 1 || len(as.Rhs) != 1 || src(as.Rhs[0]) != field {
			return ""
		}

		if id, ok := as.Lhs[0].(*ast.Ident); ok && id.Name != "_" {
			return id.Name
		}

		return ""
	}

	for i, st := range body.List {
		is, ok := st.(*ast.IfStmt)
		if !ok || is.Body == nil {
			continue
		}

		cond, local := src(is.Cond), ""

		switch {
		case is.Init == nil && (cond == field+" == nil" || cond == "req.GetOptions() == nil || "+field+" == nil"):
		case is.Init != nil && localDef(is.Init) != "" && cond == localDef(is.Init)+" == nil":
			local = localDef(is.Init)
		case is.Init == nil && i > 0 && localDef(body.List[i-1]) != "" && cond == localDef(body.List[i-1])+" == nil":
			local = localDef(body.List[i-1])
		default:
			continue
		}

		if len(is.Body.List) != 1 || src(is.Body.List[0]) != "opts = append(opts, state.WithExpectedPhaseAny())" {
			return false
		}

		els, ok := is.Else.(*ast.BlockStmt)
		if !ok {
			return false
		}

		parsed, appended := "", false

		for j := 0; j < len(els.List); j++ {
			s := els.List[j]

			if _, isDecl := s.(*ast.DeclStmt); isDecl && parsed == "" {
				if d, ok := s.(*ast.DeclStmt).Decl.(*ast.GenDecl); ok && d.Tok == token.VAR && gAssignCount(d, "opts") == 0 {
					continue
				}

				return false
			}

			as, call := gErrAssign(s)

			switch {
			case parsed == "" && call != nil && len(as.Lhs) == 2 &&
				(src(call) == "resource.ParsePhase(req.GetOptions().GetExpectedPhase())" || local != "" && src(call) == "resource.ParsePhase(*"+local+")"):
				if j+1 >= len(els.List) || src(els.List[j+1]) != "if err != nil { return nil, err }" {
					return false
				}

				parsed = src(as.Lhs[0])
				j++
			case parsed != "" && !appended && src(s) == "opts = append(opts, state.WithExpectedPhase("+parsed+"))":
				appended = true
			default:
				return false
			}
		}

		if !appended {
			return false
		}

		// the options reach the wrapped call
		for _, later := range body.List[i+1:] {
			_, call := gErrAssign(later)
			if call != nil && src(call.Fun) == "server.state.Update" && call.Ellipsis.IsValid() && src(call.Args[len(call.Args)-1]) == "opts" {
				return true
			}
		}

		return false
	}

	return false
}

func gCliExpectedPhase(fd *ast.FuncDecl) bool {
	body := gBody(fd)

	declared, set := false, false

	for _, st := range body.List {
		if src(st) == "var expectedPhase *string" {
			declared = true
		}

		is := gPlainIf(st, "opts.ExpectedPhase != nil")
		if is == nil || !declared || len(is.Body.List) != 1 {
			continue
		}

		as, ok := is.Body.List[0].(*ast.AssignStmt)
		if ok && as.Tok == token.ASSIGN && len(as.Lhs) == 1 && len(as.Rhs) == 1 && src(as.Lhs[0]) == "expectedPhase" &&
			strings.Contains(src(as.Rhs[0]), "opts.ExpectedPhase.String()") {
			set = true
		}
	}

	if !set || gAssignCount(body, "expectedPhase") != 1 {
		return false
	}

	return src(gLitField(gOptionsLit(fd, "Update"), "ExpectedPhase")) == "expectedPhase"
}

// ---- 9, 10. write-back --------------------------------------------------------------

// gParams lists (name, type text) of a function's parameters.
func gParams(fd *ast.FuncDecl) [][2]string {
	var ps [][2]string

	if fd == nil || fd.Type == nil || fd.Type.Params == nil {
		return nil
	}

	for _, f := range fd.Type.Params.List {
		if len(f.Names) == 0 {
			ps = append(ps, [2]string{"_", src(f.Type)})
		}

		for _, n := range f.Names {
			ps = append(ps, [2]string{n.Name, src(f.Type)})
		}
	}

	return ps
}

func gWriteBack(fd *ast.FuncDecl) []string {
	ps := gParams(fd)
	if fd == nil || fd.Body == nil || len(ps) != 2 || ps[0][1] != "*v1alpha1.Resource" || ps[1][1] != "resource.Resource" ||
		ps[0][0] == "_" || ps[1][0] == "_" {
		return []string{".unknown"}
	}

	source, target := ps[0][0], ps[1][0]
	body := fd.Body

	// `version, err := resource.ParseVersion(source.GetMetadata().GetVersion()); if err != nil { return err }`
	version := ""

	for i, st := range body.List {
		as, call := gErrAssign(st)
		if call != nil && len(as.Lhs) == 2 && src(call) == "resource.ParseVersion("+source+".GetMetadata().GetVersion())" &&
			i+1 < len(body.List) && src(body.List[i+1]) == "if err != nil { return err }" {
			version = src(as.Lhs[0])
		}
	}

	if version != "" && gAssignCount(body, version) != 1 {
		version = ""
	}

	// setter calls that run unconditionally: top-level expression statements / the returned call
	top := map[*ast.CallExpr]bool{}

	for _, st := range body.List {
		switch s := st.(type) {
		case *ast.ExprStmt:
			if c, ok := s.X.(*ast.CallExpr); ok {
				top[c] = true
			}
		case *ast.ReturnStmt:
			if len(s.Results) == 1 {
				if c, ok := s.Results[0].(*ast.CallExpr); ok {
					top[c] = true
				}
			}
		}
	}

	getters := map[string][2]string{
		"SetUpdated": {".updated", "GetUpdated()"}, "SetOwner": {".owner", "GetOwner()"},
		"SetCreated": {".created", "GetCreated()"}, "SetPhase": {".phase", "GetPhase()"},
	}

	var res []string

	setters, uses := 0, 0

	ast.Inspect(body, func(n ast.Node) bool {
		if id, ok := n.(*ast.Ident); ok && id.Name == target {
			uses++
		}

		c, ok := n.(*ast.CallExpr)
		if !ok {
			return true
		}

		sel, ok := c.Fun.(*ast.SelectorExpr)
		if !ok || src(sel.X) != target+".Metadata()" || !strings.HasPrefix(sel.Sel.Name, "Set") {
			return true
		}

		setters++

		entry := ".unknown"

		if top[c] && len(c.Args) == 1 && !c.Ellipsis.IsValid() {
			arg := src(c.Args[0])

			if sel.Sel.Name == "SetVersion" {
				if version != "" && arg == version {
					entry = ".version"
				}
			} else if g, ok := getters[sel.Sel.Name]; ok && strings.Contains(arg, source+".GetMetadata()."+g[1]) {
				entry = g[0]
			}
		}

		res = append(res, entry)

		return true
	})

	// any other use of the target object is not understood
	if uses != setters {
		res = append(res, ".unknown")
	}

	return res
}

func gCliWritesBack(fd *ast.FuncDecl, m string) bool {
	body := gBody(fd)
	if len(body.List) == 0 {
		return false
	}

	param := ""

	for _, p := range gParams(fd) {
		if p[1] == "resource.Resource" {
			if param != "" {
				return false
			}

			param = p[0]
		}
	}

	as, _, _ := gRPCAssign(fd, m)
	if param == "" || param == "_" || as == nil || len(as.Lhs) != 2 || src(as.Lhs[0]) != "resp" {
		return false
	}

	r := gSingleReturn(body.List[len(body.List)-1:])

	return r != nil && len(r.Results) == 1 && src(r.Results[0]) == "updateResourceMetadata(resp.GetResource(), "+param+")"
}

// ---- 11. sticky fallback ------------------------------------------------------------

func gStickyLoad(fd *ast.FuncDecl, m string) bool {
	x := gLowerFirst(m)

	_, _, rpc := gRPCAssign(fd, m)
	if rpc < 0 {
		return false
	}

	for _, st := range gBody(fd).List[:rpc] {
		is := gPlainIf(st, "adapter."+x+"NotSupported.Load()")
		if is != nil && len(is.Body.List) == 1 && src(is.Body.List[0]) == "return adapter."+x+"Fallback(ctx, resourcePointer, opts)" {
			return true
		}
	}

	return false
}

func gStickyStore(fd *ast.FuncDecl, m string) bool {
	sw := gCliSwitch(fd, m)
	if sw == nil {
		return false
	}

	for _, c := range sw.Body.List {
		cc, ok := c.(*ast.CaseClause)
		if !ok || len(cc.List) != 1 || src(cc.List[0]) != "codes.Unimplemented" {
			continue
		}

		return gIsFallbackArm(cc.Body, m)
	}

	return false
}

// ---- 12. events ---------------------------------------------------------------------

// gEventMap reads `switch <tag> { case A: <lhs> = B ... }`.
func gEventMap(fd *ast.FuncDecl, tag, lhs string, from, to func(string) string) []string {
	unknown := []string{"(.unknown, .unknown)"}

	var sw *ast.SwitchStmt

	count := 0

	ast.Inspect(gBody(fd), func(n ast.Node) bool {
		if s, ok := n.(*ast.SwitchStmt); ok && s.Tag != nil && s.Init == nil && s.Body != nil && src(s.Tag) == tag {
			sw = s
			count++
		}

		return true
	})

	if count != 1 {
		return unknown
	}

	var rows []string

	for _, c := range sw.Body.List {
		cc, ok := c.(*ast.CaseClause)
		if !ok {
			return unknown
		}

		target := ".unknown"

		if len(cc.Body) == 1 {
			if as, ok := cc.Body[0].(*ast.AssignStmt); ok && as.Tok == token.ASSIGN && len(as.Lhs) == 1 && len(as.Rhs) == 1 && src(as.Lhs[0]) == lhs {
				target = to(src(as.Rhs[0]))
			}
		}

		if cc.List == nil {
			rows = append(rows, fmt.Sprintf("(.unknown, %s)", target))

			continue
		}

		for _, e := range cc.List {
			rows = append(rows, fmt.Sprintf("(%s, %s)", from(src(e)), target))
		}
	}

	// the mapped variable is set nowhere else
	if len(rows) == 0 || gAssignCount(gBody(fd), lhs) != len(sw.Body.List) {
		return unknown
	}

	return rows
}

func gLegacySkip(fd *ast.FuncDecl) []string {
	unknown := []string{".unknown"}
	body := gBody(fd)

	// exactly one `if` looks at apiVersion
	mentions := 0

	ast.Inspect(body, func(n ast.Node) bool {
		if id, ok := n.(*ast.Ident); ok && id.Name == "apiVersion" {
			mentions++
		}

		return true
	})

	if mentions != 1 {
		return unknown
	}

	for _, st := range body.List {
		is := gPlainIf(st, "apiVersion < 1")
		if is == nil {
			continue
		}

		if len(is.Body.List) != 1 {
			return unknown
		}

		inner, ok := is.Body.List[0].(*ast.IfStmt)
		if !ok || inner.Init != nil || inner.Else != nil || inner.Body == nil ||
			len(inner.Body.List) != 1 || src(inner.Body.List[0]) != "return nil, nil" {
			return unknown
		}

		var res []string

		for _, d := range gDisjuncts(inner.Cond) {
			b, ok := d.(*ast.BinaryExpr)
			if !ok || b.Op != token.EQL || src(b.X) != "event.Type" {
				res = append(res, ".unknown")

				continue
			}

			res = append(res, gEvT(src(b.Y)))
		}

		return res
	}

	return unknown
}

func gSrvEventCopies(fd *ast.FuncDecl) bool {
	body := gBody(fd)

	// `if event.<F> != nil { V, err = protobuf.FromResource(event.<F>); ..; dst, err = V.Marshal(); .. }`
	marshals := func(field, dst string) bool {
		n, ok := 0, false

		for _, st := range body.List {
			is := gPlainIf(st, "event."+field+" != nil")
			if is == nil {
				continue
			}

			n++

			v := ""

			for _, s := range is.Body.List {
				as, call := gErrAssign(s)
				if call == nil || len(as.Lhs) != 2 {
					continue
				}

				switch {
				case src(call) == "protobuf.FromResource(event."+field+")":
					v = src(as.Lhs[0])
				case v != "" && src(call) == v+".Marshal()" && src(as.Lhs[0]) == dst:
					ok = true
				}
			}
		}

		return n == 1 && ok && gAssignCount(body, dst) == 1
	}

	if !marshals("Resource", "marshaled") || !marshals("Old", "oldMarshaled") || len(body.List) == 0 {
		return false
	}

	r := gSingleReturn(body.List[len(body.List)-1:])
	if r == nil || len(r.Results) != 2 || src(r.Results[1]) != "nil" {
		return false
	}

	if _, ok := r.Results[0].(*ast.UnaryExpr); !ok {
		return false
	}

	ev := gLit(r.Results[0], "v1alpha1.Event")

	return ev != nil &&
		src(gLitField(ev, "Resource")) == "marshaled" && src(gLitField(ev, "Old")) == "oldMarshaled" &&
		src(gLitField(ev, "Bookmark")) == "event.Bookmark" && src(gLitField(ev, "EventType")) == "eventType"
}

func gCliEventCopies(fd *ast.FuncDecl) bool {
	body := gBody(fd)

	// `event := state.Event{Bookmark: msgEvent.Bookmark}`
	literals, bookmark := 0, false

	ast.Inspect(body, func(n ast.Node) bool {
		as, ok := n.(*ast.AssignStmt)
		if !ok || len(as.Lhs) != 1 || len(as.Rhs) != 1 || src(as.Lhs[0]) != "event" {
			return true
		}

		literals++

		if _, isLit := as.Rhs[0].(*ast.CompositeLit); !isLit || as.Tok != token.DEFINE {
			return true
		}

		ev := gLit(as.Rhs[0], "state.Event")
		if ev != nil && len(ev.Elts) > 0 && src(gLitField(ev, "Bookmark")) == "msgEvent.Bookmark" &&
			gLitField(ev, "Resource") == nil && gLitField(ev, "Old") == nil {
			bookmark = true
		}

		return true
	})

	if literals != 1 || !bookmark {
		return false
	}

	// `if msgEvent.<F> != nil { .. protobuf.Unmarshal(msgEvent.<F>) .. event.<F> = .. }`, and event.<F> is set nowhere else
	unmarshals := func(field string) bool {
		var guard *ast.IfStmt

		n := 0

		ast.Inspect(body, func(x ast.Node) bool {
			if st, ok := x.(ast.Stmt); ok {
				if is := gPlainIf(st, "msgEvent."+field+" != nil"); is != nil {
					guard = is
					n++
				}
			}

			return true
		})

		if n != 1 {
			return false
		}

		inside := gAssignCount(guard.Body, "event."+field)

		return inside > 0 && inside == gAssignCount(body, "event."+field) &&
			gHasCall(guard.Body, "protobuf.Unmarshal(msgEvent."+field+")")
	}

	return unmarshals("Resource") && unmarshals("Old")
}
