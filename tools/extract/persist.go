package main

import (
	"go/ast"
	"path/filepath"
	"strings"
)

// genPersist regenerates Cosi/Gen/Persist.lean (C10) from
// pkg/state/impl/inmem/inmem.go and pkg/state/impl/store/bolt/namespaced.go:
//
//   - loadedOnlyOnSuccess: in State.loadStore the only `st.loaded.Store(true)` is a top-level
//     statement after `if err := st.store.Load(...); err != nil { return err }`
//   - loadInjects: the Load handler is `st.getCollection(resourceType).inject(resource); return nil`
//   - loadGuardsEveryOp: every public method of State starts with
//     `if err := st.loadStore(ctx); err != nil { return ..., err }`
//   - boltSameKey: NamespacedBackingStore.Put writes key `[]byte(res.Metadata().ID())` and Destroy
//     deletes key `[]byte(ptr.ID())` in the same bucket path namespace/resourceType, both inside
//     one `db.Update` transaction; Load reads the same namespace bucket inside `db.View`
//
// Any other shape gives `false` (fail closed).
func genPersist(repo, out string) {
	const ns = "Cosi.Gen.Persist"

	l := newLean("Persist.lean", ns)
	f := parse(filepath.Join(repo, "pkg/state/impl/inmem/inmem.go"))
	b := parse(filepath.Join(repo, "pkg/state/impl/store/bolt/namespaced.go"))

	loadedOnlyOnSuccess, loadInjects := false, false
	loadUnderMutex, loadRecheck := false, false

	if fd := method(f, "State", "loadStore"); fd != nil && fd.Body != nil {
		loadAt, storeAt, stores := -1, -1, 0
		lockAt, recheckAt, unlocks := -1, -1, 0

		for i, st := range fd.Body.List {
			s := src(st)

			// `st.storeMu.Lock()` immediately followed by `defer st.storeMu.Unlock()`, both top-level statements
			if s == "st.storeMu.Lock()" && lockAt < 0 && i+1 < len(fd.Body.List) && src(fd.Body.List[i+1]) == "defer st.storeMu.Unlock()" {
				lockAt = i
			}

			// `if st.loaded.Load() { return nil }` after the lock
			if is, ok := st.(*ast.IfStmt); ok && is.Init == nil && is.Else == nil && src(is.Cond) == "st.loaded.Load()" &&
				len(is.Body.List) == 1 && src(is.Body.List[0]) == "return nil" && lockAt >= 0 && i > lockAt+1 {
				recheckAt = i
			}

			if is, ok := st.(*ast.IfStmt); ok && is.Init != nil && strings.HasPrefix(src(is.Init), "err := st.store.Load(ctx, func(") &&
				src(is.Cond) == "err != nil" && is.Else == nil {
				if r, ok := lastReturn(is.Body); ok && r == "err" && len(is.Body.List) == 1 {
					loadAt = i
				}

				// the handler literal
				ast.Inspect(is.Init, func(n ast.Node) bool {
					if fl, ok := n.(*ast.FuncLit); ok && len(fl.Body.List) == 2 {
						if src(fl.Body.List[0]) == "st.getCollection(resourceType).inject(resource)" && src(fl.Body.List[1]) == "return nil" &&
							src(fl.Type) == "func(resourceType resource.Type, resource resource.Resource) error" {
							loadInjects = true
						}
					}

					return true
				})
			}

			if s == "st.loaded.Store(true)" {
				storeAt = i
			}
		}

		ast.Inspect(f, func(n ast.Node) bool {
			if c, ok := n.(*ast.CallExpr); ok && strings.Contains(src(c.Fun), "loaded.Store") {
				stores++
			}

			return true
		})

		loadedOnlyOnSuccess = loadAt >= 0 && storeAt > loadAt && stores == 1

		// no other Unlock anywhere in the function (the mutex is held to the end)
		ast.Inspect(fd, func(n ast.Node) bool {
			if c, ok := n.(*ast.CallExpr); ok && strings.HasSuffix(src(c.Fun), ".Unlock") {
				unlocks++
			}

			return true
		})

		loadUnderMutex = lockAt >= 0 && loadAt > lockAt+1 && storeAt > lockAt+1 && unlocks == 1
		loadRecheck = loadUnderMutex && recheckAt > lockAt+1 && recheckAt < loadAt
	}

	loadGuards := true

	for _, m := range []string{"Get", "List", "Create", "Update", "Destroy", "Watch", "WatchKind", "WatchKindAggregated"} {
		fd := method(f, "State", m)
		if fd == nil || fd.Body == nil || len(fd.Body.List) == 0 {
			loadGuards = false

			continue
		}

		is, ok := fd.Body.List[0].(*ast.IfStmt)
		if !ok || is.Init == nil || src(is.Init) != "err := st.loadStore(ctx)" || src(is.Cond) != "err != nil" {
			loadGuards = false

			continue
		}

		r, ok := lastReturn(is.Body)
		if !ok || !(r == "err" || strings.HasSuffix(r, ", err")) || len(is.Body.List) != 1 {
			loadGuards = false
		}
	}

	// loadStore itself: short-circuit only on `st.loaded.Load()`
	if fd := method(f, "State", "loadStore"); fd != nil && fd.Body != nil {
		for _, st := range fd.Body.List {
			if is, ok := st.(*ast.IfStmt); ok {
				if r, ok := lastReturn(is.Body); ok && r == "nil" {
					if c := src(is.Cond); c != "st.store == nil" && c != "st.loaded.Load()" {
						loadGuards = false
					}
				}
			}
		}
	} else {
		loadGuards = false
	}

	// bolt/namespaced.go
	body := func(name string) string {
		fd := method(b, "NamespacedBackingStore", name)
		if fd == nil || fd.Body == nil {
			return ""
		}

		return src(fd.Body)
	}

	const buckets = "bucket, err := tx.CreateBucketIfNotExists([]byte(store.namespace)) if err != nil { return err } " +
		"typeBucket, err := bucket.CreateBucketIfNotExists([]byte(resourceType)) if err != nil { return err } "

	put, destroy, load := body("Put"), body("Destroy"), body("Load")
	boltSameKey := put == "{ marshaled, err := store.store.marshaler.MarshalResource(res) if err != nil { return err } "+
		"return store.store.db.Update(func(tx *bbolt.Tx) error { "+buckets+"return typeBucket.Put([]byte(res.Metadata().ID()), marshaled) }) }" &&
		destroy == "{ return store.store.db.Update(func(tx *bbolt.Tx) error { "+buckets+"return typeBucket.Delete([]byte(ptr.ID())) }) }" &&
		strings.HasPrefix(load, "{ return store.store.db.View(func(tx *bbolt.Tx) error { bucket := tx.Bucket([]byte(store.namespace)) if bucket == nil { return nil } return bucket.ForEach(func(typeKey, val []byte) error {") &&
		strings.Contains(load, "typeBucket := bucket.Bucket(typeKey) resourceType := resource.Type(typeKey) return typeBucket.ForEach(func(_, marshaled []byte) error { res, err := store.store.marshaler.UnmarshalResource(marshaled) if err != nil { return err } return handler(resourceType, res) })")

	l.line("/-- `State.loadStore` sets `loaded` only after `store.Load` returned nil -/")
	l.line("def loadedOnlyOnSuccess : Bool := %s", leanBool(loadedOnlyOnSuccess))
	l.line("/-- `loadStore`: `storeMu.Lock(); defer storeMu.Unlock()` precede the Load and the Store of `loaded`, no other Unlock -/")
	l.line("def loadUnderMutex : Bool := %s", leanBool(loadUnderMutex))
	l.line("/-- `loadStore`: `if st.loaded.Load() { return nil }` stands between the Lock and the Load -/")
	l.line("def loadRecheckUnderLock : Bool := %s", leanBool(loadRecheck))
	l.line("/-- the Load handler injects every resource into the collection of its bucket's type -/")
	l.line("def loadInjects : Bool := %s", leanBool(loadInjects))
	l.line("/-- every method of `inmem.State` calls `loadStore` first and returns its error -/")
	l.line("def loadGuardsEveryOp : Bool := %s", leanBool(loadGuards))
	l.line("/-- bolt: Put(id) and Destroy(id) address the same key of the same bucket path, in one transaction each; Load reads that bucket -/")
	l.line("def boltSameKey : Bool := %s", leanBool(boltSameKey))
	l.write(out, ns)
}
