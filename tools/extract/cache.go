package main

import (
	"go/ast"
	"go/token"
	"path/filepath"
	"strings"
)

// genCache regenerates Cosi/Gen/Cache.lean (property C15) from
//
//	pkg/controller/runtime/runtime.go                  (processEvents: which cache call each event type
//	                                                    gets before / after the Bootstrapped event, which
//	                                                    events reach the dedup map, cache call BEFORE the
//	                                                    map entry; deduplicateWatchEvents: every
//	                                                    processEvents call precedes the send of the map)
//	pkg/controller/runtime/internal/cache/handler.go   (get / list / contextWithTeardown wait for the
//	                                                    bootstrapped channel before touching resources;
//	                                                    put closes the teardown waiter when the phase is
//	                                                    tearing down, remove closes it always; which
//	                                                    methods are ONE critical section of cacheHandler.mu)
//
// processEvents' loop body is evaluated symbolically for each (event type, bootstrapped?) pair by a
// tiny interpreter over the statement shapes that occur there. Fail closed: any statement or
// condition the interpreter does not know makes the affected table entries `.unknown` / `false`.
func genCache(repo, out string) {
	const ns = "Cosi.Gen.Cache"

	l := newLean("Cache.lean", ns)
	rt := parse(filepath.Join(repo, "pkg/controller/runtime/runtime.go"))
	hd := parse(filepath.Join(repo, "pkg/controller/runtime/internal/cache/handler.go"))

	kinds := []string{"Created", "Updated", "Destroyed", "Bootstrapped", "Noop", "Errored"}
	leanKind := map[string]string{"Created": ".created", "Updated": ".updated", "Destroyed": ".destroyed", "Bootstrapped": ".bootstrapped", "Noop": ".noop", "Errored": ".errored"}

	type entry struct {
		act    string
		notify bool
	}

	table := map[bool]map[string]entry{false: {}, true: {}}
	orderOK := true

	var loopBody *ast.BlockStmt

	pe := method(rt, "Runtime", "processEvents")
	if pe != nil && pe.Body != nil {
		for _, st := range pe.Body.List {
			if ls, ok := st.(*ast.LabeledStmt); ok {
				st = ls.Stmt
			}

			if rs, ok := st.(*ast.RangeStmt); ok && src(rs.X) == "events" && src(rs.Value) == "e" && loopBody == nil {
				loopBody = rs.Body
			}
		}

		// no goroutines, closures or defers in processEvents: the cache calls run inline
		ast.Inspect(pe.Body, func(n ast.Node) bool {
			switch n.(type) {
			case *ast.GoStmt, *ast.FuncLit, *ast.DeferStmt:
				orderOK = false
			}

			return true
		})
	}

	for _, boot := range []bool{false, true} {
		for _, k := range kinds {
			if loopBody == nil {
				table[boot][k] = entry{act: ".unknown"}
				orderOK = false

				continue
			}

			ev := &cacheEval{kind: k, boot: boot}
			outcome := ev.block(loopBody.List)

			e := entry{act: ".unknown"}

			switch {
			case outcome == "unknown" || ev.bad:
				orderOK = false
			case outcome == "abort":
				if len(ev.trace) == 0 {
					e.act = ".abort"
				}
			default:
				acts, notifyAt, lastAct := 0, -1, -1

				for i, t := range ev.trace {
					if t == "notify" {
						notifyAt = i
					} else {
						acts++
						lastAct = i
						e.act = "." + t
					}
				}

				switch {
				case acts == 0:
					e.act = ".skip"
				case acts > 1:
					e.act = ".unknown"
				}

				e.notify = notifyAt >= 0 && outcome == "end"

				if notifyAt >= 0 && lastAct > notifyAt { // a cache call AFTER the map entry
					orderOK = false
				}
			}

			table[boot][k] = e
		}
	}

	// deduplicateWatchEvents: the send of the map to `ch` is the last statement of the loop body and
	// every processEvents call precedes it; the map is sent to `ch` nowhere else in that function
	dedupOK := false

	if fd := method(rt, "Runtime", "deduplicateWatchEvents"); fd != nil && fd.Body != nil && len(fd.Body.List) == 1 {
		if fs, ok := fd.Body.List[0].(*ast.ForStmt); ok && fs.Cond == nil && len(fs.Body.List) > 0 {
			last := fs.Body.List[len(fs.Body.List)-1]

			is, ok := last.(*ast.IfStmt)
			if ok && is.Init == nil && src(is.Cond) == "!channel.SendWithContext(runtime.runCtx, ch, m)" {
				sendPos := is.Pos()
				calls, sends := 0, 0
				allBefore := true

				ast.Inspect(fd.Body, func(n ast.Node) bool {
					switch x := n.(type) {
					case *ast.CallExpr:
						s := src(x)
						if strings.HasPrefix(s, "runtime.processEvents(") {
							calls++

							if x.Pos() > sendPos {
								allBefore = false
							}
						}

						if strings.HasPrefix(s, "channel.SendWithContext(runtime.runCtx, ch,") {
							sends++
						}
					case *ast.SendStmt:
						if src(x.Chan) == "ch" {
							sends++
						}
					case *ast.GoStmt, *ast.FuncLit, *ast.DeferStmt:
						allBefore = false
					}

					return true
				})

				dedupOK = calls >= 1 && allBefore && sends == 1
			}
		}
	}

	// the cache mutators are called from processEvents only
	mutatorsOnlyInProcessEvents := pe != nil

	for _, d := range rt.Decls {
		fd, ok := d.(*ast.FuncDecl)
		if !ok || fd.Body == nil || fd == pe {
			continue
		}

		ast.Inspect(fd.Body, func(n ast.Node) bool {
			if c, ok := n.(*ast.CallExpr); ok {
				s := src(c.Fun)
				if s == "runtime.cache.CachePut" || s == "runtime.cache.CacheAppend" || s == "runtime.cache.CacheRemove" || s == "runtime.cache.MarkBootstrapped" {
					mutatorsOnlyInProcessEvents = false
				}
			}

			return true
		})
	}

	l.line("/-- runtime.go: in processEvents every cache call of an event precedes that event's entry in the dedup map")
	l.line("    (no goroutine / closure / defer), processEvents is the only caller of the cache mutators, and in")
	l.line("    deduplicateWatchEvents every processEvents call precedes the one send of the map to the delivery stage -/")
	l.line("def cacheBeforeHandoff : Bool := %s", leanBool(orderOK && dedupOK && mutatorsOnlyInProcessEvents))

	for _, boot := range []bool{false, true} {
		name, doc := "Before", "has NOT been"
		if boot {
			name, doc = "After", "has been"
		}

		l.line("/-- processEvents: the cache call an event of a cached kind gets while the handler %s marked bootstrapped -/", doc)
		l.line("def act%sBoot : EvKind → CacheAct", name)

		for _, k := range kinds {
			l.line("  | %s => %s", leanKind[k], table[boot][k].act)
		}

		l.line("  | .unknown => .unknown")
		l.line("/-- processEvents: the event reaches the dedup map (is notified to controllers) -/")
		l.line("def notify%sBoot : EvKind → Bool", name)

		for _, k := range kinds {
			l.line("  | %s => %s", leanKind[k], leanBool(table[boot][k].notify))
		}

		l.line("  | .unknown => false")
	}

	for _, m := range []struct{ lean, fn string }{{"getWaits", "get"}, {"listWaits", "list"}, {"ctxWaits", "contextWithTeardown"}} {
		l.line("/-- handler.go %s: `select { case <-ctx.Done(): return ..; case <-h.bootstrapped: }` precedes every use of h.resources / h.mu -/", m.fn)
		l.line("def %s : Bool := %s", m.lean, leanBool(waitsForBootstrap(method(hd, "cacheHandler", m.fn))))
	}

	putTD, putAlways := closesWaiter(method(hd, "cacheHandler", "put"), "r.Metadata().ID()")
	_, rmAlways := closesWaiter(method(hd, "cacheHandler", "remove"), "r.Metadata().ID()")

	l.line("/-- handler.go put: `if r.Metadata().Phase() == resource.PhaseTearingDown { if ch, ok := h.teardownWaiters[id]; ok { close(ch); delete(..) } }` -/")
	l.line("def putClosesWhenTearingDown : Bool := %s", leanBool(putTD && !putAlways))
	l.line("/-- handler.go remove: the waiter of the ID is closed and deleted unconditionally -/")
	l.line("def removeClosesWaiter : Bool := %s", leanBool(rmAlways))

	// critical sections: which methods touch the shared fields (resources, teardownWaiters) inside ONE
	// section of cacheHandler.mu
	for _, m := range []struct{ lean, fn, doc string }{
		{"ctxAtomic", "contextWithTeardown", "the lookup, the phase check and the registration of the teardown waiter are"},
		{"getAtomic", "get", "the lookup and the copy of the found resource are"},
		{"putAtomic", "put", "the update of the slice and the close of the teardown waiter are"},
		{"removeAtomic", "remove", "the deletion from the slice and the close of the teardown waiter are"},
	} {
		l.line("/-- handler.go %s: %s ONE critical section: `h.mu.Lock(); defer h.mu.Unlock()` precedes every use of", m.fn, m.doc)
		l.line("    h.resources / h.teardownWaiters, the mutex is not touched again, no other method of h is called and no closure mentions h -/")
		l.line("def %s : Bool := %s", m.lean, leanBool(wholeCriticalSection(method(hd, "cacheHandler", m.fn))))
	}

	l.line("/-- handler.go list: the slice is cloned in ONE critical section (`h.mu.Lock(); resources := slices.Clone(h.resources); h.mu.Unlock()`),")
	l.line("    the only use of the shared fields; handler.go append: `h.mu.Lock(); h.resources = append(h.resources, r); h.mu.Unlock()` -/")
	l.line("def listAtomic : Bool := %s", leanBool(bracketedSection(method(hd, "cacheHandler", "list"), "resources := slices.Clone(h.resources)")))
	l.line("def appendAtomic : Bool := %s", leanBool(bracketedSection(method(hd, "cacheHandler", "append"), "h.resources = append(h.resources, r)")))
	l.write(out, ns)
}

// usesShared: the node mentions the handler's shared fields or its mutex, or calls a method of h
// (a selector call `h.<name>(..)`: such a method may lock on its own).
func usesShared(n ast.Node) bool {
	found := false

	ast.Inspect(n, func(x ast.Node) bool {
		switch v := x.(type) {
		case *ast.SelectorExpr:
			if id, ok := v.X.(*ast.Ident); ok && id.Name == "h" {
				switch v.Sel.Name {
				case "resources", "teardownWaiters", "mu":
					found = true
				}
			}
		case *ast.CallExpr:
			if sel, ok := v.Fun.(*ast.SelectorExpr); ok {
				if id, ok := sel.X.(*ast.Ident); ok && id.Name == "h" {
					found = true
				}
			}
		}

		return !found
	})

	return found
}

// mentionsHandler: the node mentions the identifier h at all.
func mentionsHandler(n ast.Node) bool {
	found := false

	ast.Inspect(n, func(x ast.Node) bool {
		if id, ok := x.(*ast.Ident); ok && id.Name == "h" {
			found = true
		}

		return !found
	})

	return found
}

// wholeCriticalSection: among the top-level statements of the method there is `h.mu.Lock()` immediately followed by
// `defer h.mu.Unlock()`; no statement before them uses the shared fields, the mutex or another method of h; after
// them the mutex is not mentioned again, no method of h is called, and no function literal (goroutine, deferred
// closure) mentions h. Then everything the method does with h.resources / h.teardownWaiters happens in one
// section that lasts until the method returns. Anything else: false (fail closed).
func wholeCriticalSection(fd *ast.FuncDecl) bool {
	if fd == nil || fd.Body == nil {
		return false
	}

	list := fd.Body.List
	at := -1

	for i, st := range list {
		if src(st) == "h.mu.Lock()" {
			at = i

			break
		}

		if usesShared(st) {
			return false
		}
	}

	if at < 0 || at+1 >= len(list) || src(list[at+1]) != "defer h.mu.Unlock()" {
		return false
	}

	ok := true

	for _, st := range list[at+2:] {
		ast.Inspect(st, func(x ast.Node) bool {
			switch v := x.(type) {
			case *ast.SelectorExpr:
				if id, isID := v.X.(*ast.Ident); isID && id.Name == "h" && v.Sel.Name == "mu" {
					ok = false
				}
			case *ast.CallExpr:
				if sel, isSel := v.Fun.(*ast.SelectorExpr); isSel {
					if id, isID := sel.X.(*ast.Ident); isID && id.Name == "h" {
						ok = false
					}
				}
			case *ast.FuncLit:
				if mentionsHandler(v) {
					ok = false
				}
			}

			return ok
		})
	}

	return ok
}

// bracketedSection: the method contains the three consecutive top-level statements `h.mu.Lock()`, <stmt>,
// `h.mu.Unlock()`, and no other statement uses the shared fields, the mutex or a method of h.
func bracketedSection(fd *ast.FuncDecl, stmt string) bool {
	if fd == nil || fd.Body == nil {
		return false
	}

	list := fd.Body.List
	at := -1

	for i, st := range list {
		if src(st) == "h.mu.Lock()" {
			at = i

			break
		}
	}

	if at < 0 || at+2 >= len(list) || src(list[at+1]) != stmt || src(list[at+2]) != "h.mu.Unlock()" {
		return false
	}

	for i, st := range list {
		if i >= at && i <= at+2 {
			continue
		}

		if usesShared(st) {
			return false
		}
	}

	return true
}

// cacheEval interprets processEvents' loop body for one event type and one bootstrapped flag.
type cacheEval struct {
	kind  string
	boot  bool
	bad   bool
	trace []string // "append" | "put" | "remove" | "mark" | "notify", in execution order
}

func (ev *cacheEval) cond(e ast.Expr) (val, ok bool) {
	switch x := e.(type) {
	case *ast.ParenExpr:
		return ev.cond(x.X)
	case *ast.Ident:
		switch x.Name {
		case "cacheBootstrapped":
			return ev.boot, true
		case "cacheHandled":
			return true, true
		}
	case *ast.UnaryExpr:
		if x.Op == token.NOT {
			v, ok := ev.cond(x.X)

			return !v, ok
		}
	case *ast.BinaryExpr:
		switch x.Op {
		case token.EQL, token.NEQ:
			if src(x.X) == "e.Type" && strings.HasPrefix(src(x.Y), "state.") {
				eq := strings.TrimPrefix(src(x.Y), "state.") == ev.kind

				return eq == (x.Op == token.EQL), true
			}
		case token.LOR, token.LAND:
			a, ok1 := ev.cond(x.X)
			b, ok2 := ev.cond(x.Y)

			if !ok1 || !ok2 {
				return false, false
			}

			if x.Op == token.LOR {
				return a || b, true
			}

			return a && b, true
		}
	}

	return false, false
}

// block executes statements; result "end" | "continue" | "abort" | "unknown".
func (ev *cacheEval) block(list []ast.Stmt) string {
	for _, st := range list {
		switch x := st.(type) {
		case *ast.IfStmt:
			if x.Init != nil || x.Else != nil {
				return "unknown"
			}

			v, ok := ev.cond(x.Cond)
			if !ok {
				return "unknown"
			}

			if v {
				if r := ev.block(x.Body.List); r != "end" {
					return r
				}
			}
		case *ast.SwitchStmt:
			if x.Init != nil || x.Tag != nil {
				return "unknown"
			}

		cases:
			for _, c := range x.Body.List {
				cc, ok := c.(*ast.CaseClause)
				if !ok {
					return "unknown"
				}

				hit := cc.List == nil

				for _, ce := range cc.List {
					v, ok := ev.cond(ce)
					if !ok {
						return "unknown"
					}

					hit = hit || v
				}

				if hit {
					if r := ev.block(cc.Body); r != "end" {
						return r
					}

					break cases
				}
			}
		case *ast.ExprStmt:
			call, ok := x.X.(*ast.CallExpr)
			if !ok {
				return "unknown"
			}

			switch fn := src(call.Fun); {
			case fn == "runtime.cache.CacheAppend" && len(call.Args) == 1 && src(call.Args[0]) == "e.Resource":
				ev.trace = append(ev.trace, "append")
			case fn == "runtime.cache.CachePut" && len(call.Args) == 1 && src(call.Args[0]) == "e.Resource":
				ev.trace = append(ev.trace, "put")
			case fn == "runtime.cache.CacheRemove" && len(call.Args) == 1 && src(call.Args[0]) == "e.Resource":
				ev.trace = append(ev.trace, "remove")
			case fn == "runtime.cache.MarkBootstrapped":
				ev.trace = append(ev.trace, "mark")
			case strings.HasPrefix(fn, "runtime.logger."):
			default:
				return "unknown"
			}
		case *ast.SendStmt:
			if src(x) != "runtime.watchErrors <- e.Error" {
				return "unknown"
			}
		case *ast.AssignStmt:
			switch s := src(x); {
			case strings.HasPrefix(s, "cacheHandled, cacheBootstrapped := runtime.cache.IsHandledBootstrapped("):
			case s == "reducedMD := reduced.NewMetadata(e.Resource.Metadata())":
			case s == "m[reducedMD.Key] = reducedMD.Value":
				ev.trace = append(ev.trace, "notify")
			default:
				return "unknown"
			}
		case *ast.BranchStmt:
			if x.Tok == token.CONTINUE {
				return "continue"
			}

			return "unknown"
		case *ast.ReturnStmt:
			if len(x.Results) == 1 && src(x.Results[0]) == "false" {
				return "abort"
			}

			return "unknown"
		default:
			return "unknown"
		}
	}

	return "end"
}

// waitsForBootstrap: a top-level `select` without default whose clauses are `<-ctx.Done()` (returning)
// and `<-h.bootstrapped` (empty body), before the first statement mentioning h.resources or h.mu.
func waitsForBootstrap(fd *ast.FuncDecl) bool {
	if fd == nil || fd.Body == nil {
		return false
	}

	for _, st := range fd.Body.List {
		if sel, ok := st.(*ast.SelectStmt); ok {
			sawBoot, sawDone := false, false

			for _, c := range sel.Body.List {
				cc, ok := c.(*ast.CommClause)
				if !ok || cc.Comm == nil { // default clause: the read does not block
					return false
				}

				switch src(cc.Comm) {
				case "<-h.bootstrapped":
					if len(cc.Body) != 0 {
						return false
					}

					sawBoot = true
				case "<-ctx.Done()":
					if _, ok := lastReturnOf(cc.Body); !ok {
						return false
					}

					sawDone = true
				default:
					return false
				}
			}

			return sawBoot && sawDone && len(sel.Body.List) == 2
		}

		if s := src(st); strings.Contains(s, "h.resources") || strings.Contains(s, "h.mu.") {
			return false
		}
	}

	return false
}

func lastReturnOf(list []ast.Stmt) (string, bool) {
	return lastReturn(&ast.BlockStmt{List: list})
}

// closesWaiter looks for `if ch, ok := h.teardownWaiters[<id>]; ok { close(ch); delete(h.teardownWaiters, <id>) }`
// in a method body: (inside `if r.Metadata().Phase() == resource.PhaseTearingDown`, at top level).
func closesWaiter(fd *ast.FuncDecl, id string) (underTeardown, topLevel bool) {
	if fd == nil || fd.Body == nil {
		return false, false
	}

	isClose := func(st ast.Stmt) bool {
		is, ok := st.(*ast.IfStmt)
		if !ok || is.Init == nil || is.Else != nil || src(is.Init) != "ch, ok := h.teardownWaiters["+id+"]" || src(is.Cond) != "ok" || len(is.Body.List) != 2 {
			return false
		}

		return src(is.Body.List[0]) == "close(ch)" && src(is.Body.List[1]) == "delete(h.teardownWaiters, "+id+")"
	}

	for _, st := range fd.Body.List {
		if isClose(st) {
			topLevel = true
		}

		if is, ok := st.(*ast.IfStmt); ok && is.Init == nil && is.Else == nil && src(is.Cond) == "r.Metadata().Phase() == resource.PhaseTearingDown" && len(is.Body.List) == 1 && isClose(is.Body.List[0]) {
			underTeardown = true
		}
	}

	return underTeardown, topLevel
}
