package main

import (
	"fmt"
	"go/ast"
	"go/token"
	"path/filepath"
	"strconv"
	"strings"
)

// genWatch regenerates Cosi/Gen/Watch.lean from pkg/state/impl/inmem/collection.go: the statement / expression
// level shape of the in-memory watch machinery —
//
//	publish          growth test, growth rule, bookmark stamped on the event, slot index, order of the statements
//	Watch            start position, tail walk-back, bookmark bounds test, the goroutine loop (lock per iteration,
//	                 wait test, overrun test, scan: slot index and where the capacity comes from)
//	WatchAll         start position, tail / start-from-bookmark switch, bookmark bounds test, where the bookmark of
//	                 the initial Bootstrapped / Noop event is computed, the goroutine loop (overrun test, batch range
//	                 first/last, the comparison guarding the copy, Clone / Concat, pos afterwards), how the filter
//	                 closure rewrites Updated events (in place, keeping the Bookmark)
//	decodeBookmark   length test, cookie test, where the position is read from;  encodeBookmark;  bookmarkCookie
//
// Comparisons are emitted as `Test` values (lhs operand, operator, rhs operand) over the fixed vocabulary of
// Cosi.GenTypes; anything else is `.unknown` / `false` (fail closed). The Updated-branch match computation
// (old / new from both the ID and the label queries) is C14's fact (tools/extract/selector.go: watchPred, rewriteAct).
func genWatch(repo, out string) {
	const ns = "Cosi.Gen.Watch"

	l := newLean("Watch.lean", ns)
	f := parse(filepath.Join(repo, "pkg/state/impl/inmem/collection.go"))

	w := &watchX{locals: map[string]string{}}

	// ---------------------------------------------------------------- publish
	growPos, growMax, grow := wUnknownTest, wUnknownTest, ".unknown"
	pubStamp, pubSlot, pubSlotCap, pubOrder := ".unknown", ".unknown", ".unknown", false

	if fd := method(f, "ResourceCollection", "publish"); fd != nil && fd.Body != nil {
		b := fd.Body.List
		if len(b) == 5 {
			if is, ok := b[0].(*ast.IfStmt); ok && is.Init == nil && is.Else == nil {
				if ds := splitBin(is.Cond, token.LAND); len(ds) == 2 {
					growPos, growMax = w.test(ds[0]), w.test(ds[1])
				}

				if strings.Join(stmtTextsNS(is.Body.List), ";") == strings.Join([]string{
					"oldCapacity:=collection.capacity",
					"collection.capacity*=2",
					"ifcollection.capacity>collection.maxCapacity{collection.capacity=collection.maxCapacity}",
					"collection.stream=append(collection.stream,make([]state.Event,collection.capacity-oldCapacity)...)",
				}, ";") {
					grow = ".doubleClampMax"
				}
			}

			if as, ok := b[1].(*ast.AssignStmt); ok && len(as.Lhs) == 1 && len(as.Rhs) == 1 && as.Tok == token.ASSIGN && nsrc(as.Lhs[0]) == "event.Bookmark" {
				if c, ok := as.Rhs[0].(*ast.CallExpr); ok && nsrc(c.Fun) == "encodeBookmark" && len(c.Args) == 1 {
					pubStamp = w.operand(c.Args[0])
				}
			}

			if as, ok := b[2].(*ast.AssignStmt); ok && len(as.Lhs) == 1 && len(as.Rhs) == 1 && as.Tok == token.ASSIGN && nsrc(as.Rhs[0]) == "event" {
				pubSlot, pubSlotCap = w.slot(as.Lhs[0])
			}

			pubOrder = nsrc(b[3]) == "collection.writePos++" && nsrc(b[4]) == "collection.c.Broadcast()"
		}
	}

	l.line("/-! publish (collection.go) -/")
	l.line("/-- the two conjuncts of the growth test -/")
	l.line("def pubGrowPos : Test := %s", growPos)
	l.line("def pubGrowMax : Test := %s", growMax)
	l.line("def pubGrow : GrowRule := %s", grow)
	l.line("/-- `event.Bookmark = encodeBookmark(⋯)` -/")
	l.line("def pubStamp : WOperand := %s", pubStamp)
	l.line("/-- `collection.stream[⋯ %% capacity] = event` -/")
	l.line("def pubSlot : WOperand := %s", pubSlot)
	l.line("def pubSlotCap : CapSrc := %s", pubSlotCap)
	l.line("/-- exactly: growth, stamp, store, `writePos++`, Broadcast — in this order -/")
	l.line("def pubOrder : Bool := %s", leanBool(pubOrder))

	// ---------------------------------------------------------------- Watch
	sStart, sLocked := ".unknown", false
	sTailFloor, sTailFloorLit, sTailCond, sTailCount, sTailSlot, sTailSlotCap, sTailStep := ".unknown", "0", wUnknownTest, wUnknownTest, ".unknown", ".unknown", false
	sBm := wBounds{}
	var sLoop wLoop

	if fd := method(f, "ResourceCollection", "Watch"); fd != nil && fd.Body != nil {
		w.locals = capacityLocals(fd.Body.List)
		sStart, sLocked = startPos(w, fd.Body.List)

		if sw := taglessSwitch(fd.Body.List); sw != nil {
			for _, c := range sw.Body.List {
				cc := c.(*ast.CaseClause)
				if len(cc.List) != 1 {
					continue
				}

				switch nsrc(cc.List[0]) {
				case "options.TailEvents>0":
					if len(cc.Body) == 3 && nsrc(cc.Body[0]) == "foundEvents:=0" {
						if as, ok := cc.Body[1].(*ast.AssignStmt); ok && as.Tok == token.DEFINE && len(as.Lhs) == 1 && nsrc(as.Lhs[0]) == "minPos" {
							if c, ok := as.Rhs[0].(*ast.CallExpr); ok && nsrc(c.Fun) == "max" && len(c.Args) == 2 {
								sTailFloor = w.operand(c.Args[0])
								if n, ok := wIntLit(c.Args[1]); ok {
									sTailFloorLit = n
								} else {
									sTailFloor = ".unknown"
								}
							}
						}

						if fs, ok := cc.Body[2].(*ast.ForStmt); ok && fs.Init == nil && fs.Cond != nil && nsrc(fs.Post) == "pos--" && len(fs.Body.List) == 1 {
							if ds := splitBin(fs.Cond, token.LAND); len(ds) == 2 {
								sTailCond, sTailCount = w.test(ds[0]), w.test(ds[1])
							}

							if is, ok := fs.Body.List[0].(*ast.IfStmt); ok && is.Init == nil && is.Else == nil && nsrc(is.Body) == "{foundEvents++}" {
								if be, ok := is.Cond.(*ast.BinaryExpr); ok && be.Op == token.EQL && nsrc(be.Y) == "id" {
									if ie := innerIndex(be.X, ".Resource.Metadata().ID()"); ie != nil {
										sTailSlot, sTailSlotCap = w.slot(ie)
										sTailStep = true
									}
								}
							}
						}
					}
				case "options.StartFromBookmark!=nil":
					sBm = w.bounds(cc.Body)
				}
			}
		}

		sLoop = w.loop(fd.Body.List, false)
	}

	l.line("/-! Watch (single resource) -/")
	l.line("/-- `pos := ⋯` -/")
	l.line("def singleStart : WOperand := %s", sStart)
	l.line("/-- the start section runs under `collection.mu` (Lock; defer Unlock before `pos :=`) -/")
	l.line("def singleStartLocked : Bool := %s", leanBool(sLocked))
	l.line("/-- tail walk-back: `minPos := max(⋯, lit)`, `for ; A && B; pos-- { if stream[(⋯)%%capacity]…ID() == id { foundEvents++ } }` -/")
	l.line("def singleTailFloor : WOperand := %s", sTailFloor)
	l.line("def singleTailFloorLit : Int := %s", sTailFloorLit)
	l.line("def singleTailCond : Test := %s", sTailCond)
	l.line("def singleTailCount : Test := %s", sTailCount)
	l.line("def singleTailSlot : WOperand := %s", sTailSlot)
	l.line("def singleTailSlotCap : CapSrc := %s", sTailSlotCap)
	l.line("def singleTailStep : Bool := %s", leanBool(sTailStep))
	sBm.emit(l, "single")
	sLoop.emitCommon(l, "single")
	l.line("/-- the scan `for A { event = stream[⋯ %% capacity]; pos++; if event…ID() == id { break } }` -/")
	l.line("def singleScanCond : Test := %s", orUnknownTest(sLoop.scanCond))
	l.line("def singleSlot : WOperand := %s", orUnknown(sLoop.slot))
	l.line("def singleSlotCap : CapSrc := %s", orUnknown(sLoop.slotCap))
	l.line("def singleScanStep : Bool := %s", leanBool(sLoop.scanStep))
	l.line("/-- after the scan: Unlock, skip when nothing of this id was found, else send the event -/")
	l.line("def singleDeliver : Bool := %s", leanBool(sLoop.deliver))

	// ---------------------------------------------------------------- WatchAll
	kStart, kLocked := ".unknown", false
	kTail := ".unknown"
	kBm := wBounds{}
	kInitBm, kInitBmPos := ".unknown", ".unknown"
	kRewrite := ".unknown"

	var kLoop wLoop

	if fd := method(f, "ResourceCollection", "WatchAll"); fd != nil && fd.Body != nil {
		w.locals = capacityLocals(fd.Body.List)
		kStart, kLocked = startPos(w, fd.Body.List)

		swIdx := -1

		for i, st := range fd.Body.List {
			if sw, ok := st.(*ast.SwitchStmt); ok && sw.Tag == nil && sw.Init == nil {
				swIdx = i

				for _, c := range sw.Body.List {
					cc := c.(*ast.CaseClause)
					if len(cc.List) != 1 {
						continue
					}

					switch nsrc(cc.List[0]) {
					case "options.TailEvents>0":
						if strings.Join(stmtTextsNS(cc.Body), ";") == strings.Join([]string{
							"ifoptions.TailEvents>collection.capacity-collection.gap{options.TailEvents=collection.capacity-collection.gap}",
							"pos-=int64(options.TailEvents)",
							"ifpos<0{pos=0}",
						}, ";") {
							kTail = ".clampWindowFloor0"
						}
					case "options.StartFromBookmark!=nil":
						kBm = w.bounds(cc.Body)
					}
				}
			}
		}

		kLoop = w.loop(fd.Body.List, true)
		kInitBm, kInitBmPos = w.initBookmark(fd.Body.List, swIdx)
		kRewrite = rewriteMode(f, fd)
	}

	l.line("/-! WatchAll (kind / aggregated) -/")
	l.line("def kindStart : WOperand := %s", kStart)
	l.line("def kindStartLocked : Bool := %s", leanBool(kLocked))
	l.line("/-- the TailEvents branch of the start switch -/")
	l.line("def kindTail : KindTailRule := %s", kTail)
	kBm.emit(l, "kind")
	l.line("/-- the bookmark of the initial Bootstrapped / Noop events: `encodeBookmark(⋯)` and where it is evaluated -/")
	l.line("def kindInitBm : InitBmAt := %s", kInitBm)
	l.line("def kindInitBmPos : WOperand := %s", kInitBmPos)
	kLoop.emitCommon(l, "kind")
	l.line("/-- the batch: `first := ⋯ %% capacity`, `last := ⋯ %% capacity`, `if A { Clone(stream[first:last]) } else { Concat(stream[first:], stream[:last]) }`, `pos = ⋯` -/")
	l.line("def kindFirst : WOperand := %s", orUnknown(kLoop.first))
	l.line("def kindLast : WOperand := %s", orUnknown(kLoop.last))
	l.line("def kindFirstLastCap : CapSrc := %s", orUnknown(kLoop.slotCap))
	l.line("def kindBatchGuard : Test := %s", orUnknownTest(kLoop.batchGuard))
	l.line("def kindBatchCopy : BatchCopy := %s", orUnknown(kLoop.batchCopy))
	l.line("def kindPosAfter : WOperand := %s", orUnknown(kLoop.posAfter))
	l.line("/-- the copy is made and `pos` advanced before `collection.mu.Unlock()`, the filter runs after it -/")
	l.line("def kindCopyUnderLock : Bool := %s", leanBool(kLoop.deliver))
	l.line("/-- the filter closure: how an Updated event is turned into Created / Destroyed (filterInPlaceMutating keeps the mutation) -/")
	l.line("def kindRewrite : RewriteMode := %s", kRewrite)

	// ---------------------------------------------------------------- bookmarks
	decLen, decCookie, decOff, decRejects := wUnknownTest, ".unknown", "0", false
	encShape := false
	cookieLen := "0"

	if vd := packageVar(f, "bookmarkCookie"); vd != nil {
		ast.Inspect(vd, func(n ast.Node) bool {
			if as, ok := n.(*ast.AssignStmt); ok && as.Tok == token.DEFINE && len(as.Lhs) == 1 && nsrc(as.Lhs[0]) == "cookie" {
				if c, ok := as.Rhs[0].(*ast.CallExpr); ok && nsrc(c.Fun) == "make" && len(c.Args) == 2 && nsrc(c.Args[0]) == "[]byte" {
					if n, ok := wIntLit(c.Args[1]); ok {
						cookieLen = n
					}
				}
			}

			return true
		})
	}

	if fd := method(f, "", "encodeBookmark"); fd != nil && fd.Body != nil && len(fd.Body.List) == 1 {
		r, ok := lastReturn(fd.Body)
		encShape = ok && strings.ReplaceAll(r, " ", "") == "binary.BigEndian.AppendUint64(slices.Clone(bookmarkCookie()),uint64(pos))"
	}

	if fd := method(f, "", "decodeBookmark"); fd != nil && fd.Body != nil && len(fd.Body.List) >= 2 {
		// every statement but the last is either `cookie := bookmarkCookie()` or a guard returning the invalid-bookmark error
		cookieVar := ""
		ok := true

		var disj []ast.Expr

		for _, st := range fd.Body.List[:len(fd.Body.List)-1] {
			switch x := st.(type) {
			case *ast.AssignStmt:
				if x.Tok == token.DEFINE && len(x.Lhs) == 1 && len(x.Rhs) == 1 && nsrc(x.Rhs[0]) == "bookmarkCookie()" {
					cookieVar = nsrc(x.Lhs[0])
				} else {
					ok = false
				}
			case *ast.IfStmt:
				if x.Init != nil || x.Else != nil || nsrc(x.Body) != "{return0,ErrInvalidWatchBookmark}" {
					ok = false
				}

				disj = append(disj, splitBin(x.Cond, token.LOR)...)
			default:
				ok = false
			}
		}

		cookieExpr := func(e ast.Expr) bool {
			return nsrc(e) == "bookmarkCookie()" || (cookieVar != "" && nsrc(e) == cookieVar)
		}

		if ok && len(disj) == 2 {
			for _, d := range disj {
				switch x := d.(type) {
				case *ast.BinaryExpr:
					if nsrc(x.X) == "len(bookmark)" {
						rhs := ".unknown"
						if n, ok := wIntLit(x.Y); ok {
							rhs = ".lit " + n
						} else if be, ok := x.Y.(*ast.BinaryExpr); ok && be.Op == token.ADD {
							// len(cookie)+8 with the cookie length known
							if c, ok := be.X.(*ast.CallExpr); ok && nsrc(c.Fun) == "len" && len(c.Args) == 1 && cookieExpr(c.Args[0]) {
								if n, ok := wIntLit(be.Y); ok {
									a, _ := strconv.Atoi(cookieLen)
									b, _ := strconv.Atoi(n)
									rhs = fmt.Sprintf(".lit %d", a+b)
								}
							}
						}

						decLen = fmt.Sprintf("⟨.lenBookmark, %s, %s⟩", cmpOf(x.Op), rhs)
					}
				case *ast.UnaryExpr:
					if c, isCall := x.X.(*ast.CallExpr); isCall && x.Op == token.NOT && len(c.Args) == 2 {
						switch nsrc(c.Fun) {
						case "slices.Equal", "bytes.Equal":
							if nsrc(c.Args[0]) == "bookmark[:8]" && cookieExpr(c.Args[1]) && cookieLen == "8" {
								decCookie = ".equalFirst8"
							}
						case "bytes.HasPrefix":
							if nsrc(c.Args[0]) == "bookmark" && cookieExpr(c.Args[1]) {
								decCookie = ".hasPrefix"
							}
						}
					}
				}
			}

			decRejects = true
		}

		if r, ok := lastReturn(fd.Body); ok {
			r = strings.ReplaceAll(r, " ", "")

			switch {
			case r == "int64(binary.BigEndian.Uint64(bookmark[8:])),nil":
				decOff = "8"
			case cookieVar != "" && r == "int64(binary.BigEndian.Uint64(bookmark[len("+cookieVar+"):])),nil":
				decOff = cookieLen
			}
		}
	}

	l.line("/-! bookmarks -/")
	l.line("/-- `make([]byte, n)` in bookmarkCookie -/")
	l.line("def cookieLen : Nat := %s", cookieLen)
	l.line("/-- encodeBookmark is `binary.BigEndian.AppendUint64(slices.Clone(bookmarkCookie()), uint64(pos))` -/")
	l.line("def encShape : Bool := %s", leanBool(encShape))
	l.line("/-- decodeBookmark: the length test that rejects, the cookie test, the offset the position is read from -/")
	l.line("def decLen : Test := %s", decLen)
	l.line("def decCookie : CookieTest := %s", decCookie)
	l.line("def decPosOffset : Nat := %s", decOff)
	l.line("/-- both tests return `0, ErrInvalidWatchBookmark`; the result is `int64(binary.BigEndian.Uint64(bookmark[off:]))` -/")
	l.line("def decRejects : Bool := %s", leanBool(decRejects))
	l.write(out, ns)
}

const wUnknownTest = "⟨.unknown, .unknown, .unknown⟩"

func orUnknown(s string) string {
	if s == "" {
		return ".unknown"
	}

	return s
}

func orUnknownTest(s string) string {
	if s == "" {
		return wUnknownTest
	}

	return s
}

// nsrc prints a node without any white space (gofmt's spacing of binary expressions depends on the context).
func nsrc(n any) string { return strings.ReplaceAll(src(n), " ", "") }

func stmtTextsNS(list []ast.Stmt) []string {
	res := make([]string, 0, len(list))
	for _, st := range list {
		res = append(res, nsrc(st))
	}

	return res
}

// splitBin flattens `a op b op c` (left-nested) into its operands; parentheses are transparent.
func splitBin(e ast.Expr, op token.Token) []ast.Expr {
	for {
		p, ok := e.(*ast.ParenExpr)
		if !ok {
			break
		}

		e = p.X
	}

	if be, ok := e.(*ast.BinaryExpr); ok && be.Op == op {
		return append(splitBin(be.X, op), splitBin(be.Y, op)...)
	}

	return []ast.Expr{e}
}

func wIntLit(e ast.Expr) (string, bool) {
	neg := false

	if u, ok := e.(*ast.UnaryExpr); ok && u.Op == token.SUB {
		neg = true
		e = u.X
	}

	bl, ok := e.(*ast.BasicLit)
	if !ok || bl.Kind != token.INT || strings.ContainsAny(bl.Value, "_xXoObB") {
		return "", false
	}

	if neg {
		return "-" + bl.Value, true
	}

	return bl.Value, true
}

func cmpOf(op token.Token) string {
	switch op {
	case token.LSS:
		return ".lt"
	case token.LEQ:
		return ".le"
	case token.GTR:
		return ".gt"
	case token.GEQ:
		return ".ge"
	case token.EQL:
		return ".eq"
	case token.NEQ:
		return ".ne"
	}

	return ".unknown"
}

func packageVar(f *ast.File, name string) ast.Node {
	for _, d := range f.Decls {
		gd, ok := d.(*ast.GenDecl)
		if !ok || gd.Tok != token.VAR {
			continue
		}

		for _, s := range gd.Specs {
			vs := s.(*ast.ValueSpec)
			for _, n := range vs.Names {
				if n.Name == name {
					return vs
				}
			}
		}
	}

	return nil
}

// watchX recognises operands; `locals` maps a local variable holding `int64(collection.capacity)` to itself.
type watchX struct {
	locals map[string]string
}

// capacityLocals finds `x := int64(collection.capacity)` / `x := collection.capacity` among the top-level statements
// of a function body (i.e. outside the goroutine loops) that follow `collection.mu.Lock()` (a read before the lock
// is taken is not recognised).
func capacityLocals(list []ast.Stmt) map[string]string {
	res := map[string]string{}
	locked := false

	for _, st := range list {
		if nsrc(st) == "collection.mu.Lock()" {
			locked = true
		}

		if !locked {
			continue
		}

		if as, ok := st.(*ast.AssignStmt); ok && as.Tok == token.DEFINE && len(as.Lhs) == 1 && len(as.Rhs) == 1 {
			switch nsrc(as.Rhs[0]) {
			case "int64(collection.capacity)", "collection.capacity":
				res[nsrc(as.Lhs[0])] = nsrc(as.Rhs[0])
			}
		}
	}

	return res
}

func (w *watchX) isCapLocal(s string) bool {
	if _, ok := w.locals[s]; ok {
		return true
	}

	if strings.HasPrefix(s, "int64(") && strings.HasSuffix(s, ")") {
		_, ok := w.locals[s[6:len(s)-1]]

		return ok
	}

	return false
}

func (w *watchX) operand(e ast.Expr) string {
	for {
		p, ok := e.(*ast.ParenExpr)
		if !ok {
			break
		}

		e = p.X
	}

	if n, ok := wIntLit(e); ok {
		if strings.HasPrefix(n, "-") {
			return ".lit (" + n + ")"
		}

		return ".lit " + n
	}

	s := nsrc(e)

	switch s {
	case "collection.writePos":
		return ".writePos"
	case "pos":
		return ".pos"
	case "pos-1":
		return ".posMinus1"
	case "collection.writePos-pos":
		return ".lag"
	case "int64(collection.capacity)", "collection.capacity":
		return ".capacity"
	case "collection.maxCapacity", "int64(collection.maxCapacity)":
		return ".maxCapacity"
	case "collection.writePos-int64(collection.capacity)+int64(collection.gap)":
		return ".windowStart"
	case "collection.capacity-collection.gap":
		return ".window"
	case "options.TailEvents":
		return ".tailEvents"
	case "foundEvents":
		return ".foundEvents"
	case "minPos":
		return ".minPos"
	case "first":
		return ".first"
	case "last":
		return ".last"
	case "len(bookmark)":
		return ".lenBookmark"
	}

	if w.isCapLocal(s) {
		return ".capacityLocal"
	}

	// collection.writePos - <local capacity> + int64(collection.gap)
	if be, ok := e.(*ast.BinaryExpr); ok && be.Op == token.ADD && nsrc(be.Y) == "int64(collection.gap)" {
		if b2, ok := be.X.(*ast.BinaryExpr); ok && b2.Op == token.SUB && nsrc(b2.X) == "collection.writePos" && w.isCapLocal(nsrc(b2.Y)) {
			return ".windowStartLocal"
		}
	}

	return ".unknown"
}

func (w *watchX) test(e ast.Expr) string {
	for {
		p, ok := e.(*ast.ParenExpr)
		if !ok {
			break
		}

		e = p.X
	}

	be, ok := e.(*ast.BinaryExpr)
	if !ok || cmpOf(be.Op) == ".unknown" {
		return wUnknownTest
	}

	return fmt.Sprintf("⟨%s, %s, %s⟩", w.operand(be.X), cmpOf(be.Op), w.operand(be.Y))
}

// slot recognises `collection.stream[X % CAP]`: the position expression and where the capacity comes from.
func (w *watchX) slot(e ast.Expr) (string, string) {
	ie, ok := e.(*ast.IndexExpr)
	if !ok || nsrc(ie.X) != "collection.stream" {
		return ".unknown", ".unknown"
	}

	return w.modCap(ie.Index)
}

func (w *watchX) modCap(e ast.Expr) (string, string) {
	be, ok := e.(*ast.BinaryExpr)
	if !ok || be.Op != token.REM {
		return ".unknown", ".unknown"
	}

	capSrc := ".unknown"

	switch {
	case nsrc(be.Y) == "int64(collection.capacity)":
		capSrc = ".field"
	case w.isCapLocal(nsrc(be.Y)):
		capSrc = ".snapshot"
	}

	return w.operand(be.X), capSrc
}

// innerIndex finds the IndexExpr `collection.stream[...]` at the head of a selector chain with the given suffix.
func innerIndex(e ast.Expr, suffix string) *ast.IndexExpr {
	var res *ast.IndexExpr

	ast.Inspect(e, func(n ast.Node) bool {
		if ie, ok := n.(*ast.IndexExpr); ok && res == nil && nsrc(ie.X) == "collection.stream" {
			res = ie

			return false
		}

		return true
	})

	if res == nil || nsrc(e) != nsrc(res)+suffix {
		return nil
	}

	return res
}

// startPos: `collection.mu.Lock(); defer collection.mu.Unlock(); pos := X` — the operand and that the lock comes first.
func startPos(w *watchX, list []ast.Stmt) (string, bool) {
	lockAt, posAt, op := -1, -1, ".unknown"

	for i, st := range list {
		if nsrc(st) == "collection.mu.Lock()" && lockAt < 0 && i+1 < len(list) && nsrc(list[i+1]) == "defercollection.mu.Unlock()" {
			lockAt = i
		}

		if as, ok := st.(*ast.AssignStmt); ok && as.Tok == token.DEFINE && len(as.Lhs) == 1 && nsrc(as.Lhs[0]) == "pos" && posAt < 0 {
			posAt = i
			op = w.operand(as.Rhs[0])
		}
	}

	return op, lockAt >= 0 && posAt > lockAt
}

func taglessSwitch(list []ast.Stmt) *ast.SwitchStmt {
	for _, st := range list {
		if sw, ok := st.(*ast.SwitchStmt); ok && sw.Tag == nil && sw.Init == nil {
			return sw
		}
	}

	return nil
}

// wBounds is the StartFromBookmark branch: decode, return the error, the bounds test, skip the bookmarked event.
type wBounds struct {
	low, min, high string
	rejects, skip  bool
}

func (w *watchX) bounds(body []ast.Stmt) wBounds {
	res := wBounds{}

	if len(body) != 5 || nsrc(body[0]) != "varerrerror" || nsrc(body[1]) != "pos,err=decodeBookmark(options.StartFromBookmark)" ||
		nsrc(body[2]) != "iferr!=nil{returnerr}" {
		return res
	}

	is, ok := body[3].(*ast.IfStmt)
	if !ok || is.Init != nil || is.Else != nil || nsrc(is.Body) != "{returnErrInvalidWatchBookmark}" {
		return res
	}

	ds := splitBin(is.Cond, token.LOR)
	if len(ds) != 3 {
		return res
	}

	// the three disjuncts are told apart by their right operand: the window start, a literal, the write position
	for _, d := range ds {
		t := w.test(d)

		switch {
		case strings.Contains(t, ".windowStart"):
			if res.low != "" {
				return wBounds{}
			}

			res.low = t
		case strings.Contains(t, ".lit"):
			if res.min != "" {
				return wBounds{}
			}

			res.min = t
		case strings.HasSuffix(t, ".writePos⟩"):
			if res.high != "" {
				return wBounds{}
			}

			res.high = t
		default:
			return wBounds{}
		}
	}

	res.rejects = true
	res.skip = nsrc(body[4]) == "pos++"

	return res
}

func (b wBounds) emit(l *leanFile, pfx string) {
	l.line("/-- StartFromBookmark: `pos, err = decodeBookmark(..)`; `if err != nil { return err }`; `if A || B || C { return ErrInvalidWatchBookmark }`; `pos++` -/")
	l.line("def %sBmLow : Test := %s", pfx, orUnknownTest(b.low))
	l.line("def %sBmMin : Test := %s", pfx, orUnknownTest(b.min))
	l.line("def %sBmHigh : Test := %s", pfx, orUnknownTest(b.high))
	l.line("def %sBmRejects : Bool := %s", pfx, leanBool(b.rejects))
	l.line("def %sBmSkip : Bool := %s", pfx, leanBool(b.skip))
}

// wLoop is the body of the `for { ... }` of the watcher goroutine.
type wLoop struct {
	locks, terminal, scanStep, deliver                  bool
	wait, overrun, scanCond, slot, slotCap              string
	first, last, batchGuard, batchCopy, posAfter        string
	overrunCap                                          string
	goroutine                                           *ast.FuncLit
}

func (lp wLoop) emitCommon(l *leanFile, pfx string) {
	l.line("/-- the goroutine loop: `collection.mu.Lock()` first in every iteration; `for A { c.Wait() … }`; `if B { Unlock; send Errored; return }` -/")
	l.line("def %sLoopLocks : Bool := %s", pfx, leanBool(lp.locks))
	l.line("def %sWait : Test := %s", pfx, orUnknownTest(lp.wait))
	l.line("def %sOverrun : Test := %s", pfx, orUnknownTest(lp.overrun))
	l.line("/-- where the capacity of the overrun test comes from (`.field`: re-read under the lock in every iteration) -/")
	l.line("def %sOverrunCap : CapSrc := %s", pfx, orUnknown(lp.overrunCap))
	l.line("def %sOverrunTerminal : Bool := %s", pfx, leanBool(lp.terminal))
}

// loop finds the goroutine whose body ends in `for { ... }` and reads the loop body statement by statement.
func (w *watchX) loop(list []ast.Stmt, kind bool) wLoop {
	var res wLoop

	var body []ast.Stmt

	for _, st := range list {
		gs, ok := st.(*ast.GoStmt)
		if !ok {
			continue
		}

		fl, ok := gs.Call.Fun.(*ast.FuncLit)
		if !ok || len(fl.Body.List) == 0 {
			continue
		}

		if fs, ok := fl.Body.List[len(fl.Body.List)-1].(*ast.ForStmt); ok && fs.Init == nil && fs.Cond == nil && fs.Post == nil {
			body = fs.Body.List
			res.goroutine = fl
		}
	}

	if body == nil {
		return res
	}

	i := 0
	next := func() ast.Stmt {
		if i < len(body) {
			i++

			return body[i-1]
		}

		return &ast.EmptyStmt{}
	}

	res.locks = nsrc(next()) == "collection.mu.Lock()"

	if nsrc(next()) != "ifctx.Err()!=nil{collection.mu.Unlock()return}" {
		return wLoop{goroutine: res.goroutine}
	}

	if fs, ok := next().(*ast.ForStmt); ok && fs.Init == nil && fs.Post == nil && fs.Cond != nil &&
		strings.HasPrefix(nsrc(fs.Body), "{collection.c.Wait()select{case<-ctx.Done():collection.mu.Unlock()return") {
		res.wait = w.test(fs.Cond)
	}

	if is, ok := next().(*ast.IfStmt); ok && is.Init == nil && is.Else == nil {
		res.overrun = w.test(is.Cond)

		if be, ok := is.Cond.(*ast.BinaryExpr); ok {
			switch {
			case nsrc(be.Y) == "int64(collection.capacity)":
				res.overrunCap = ".field"
			case w.isCapLocal(nsrc(be.Y)):
				res.overrunCap = ".snapshot"
			}
		}

		b := nsrc(is.Body)
		endsInReturn := false

		if len(is.Body.List) > 0 {
			_, endsInReturn = is.Body.List[len(is.Body.List)-1].(*ast.ReturnStmt)
		}

		res.terminal = endsInReturn && strings.Contains(b, "collection.mu.Unlock()") && strings.Contains(b, "Type:state.Errored") &&
			strings.Index(b, "collection.mu.Unlock()") < strings.Index(b, "Type:state.Errored")
	}

	if !kind {
		if nsrc(next()) != "vareventstate.Event" {
			return res
		}

		if fs, ok := next().(*ast.ForStmt); ok && fs.Init == nil && fs.Post == nil && fs.Cond != nil && len(fs.Body.List) == 3 {
			res.scanCond = w.test(fs.Cond)

			if as, ok := fs.Body.List[0].(*ast.AssignStmt); ok && as.Tok == token.ASSIGN && len(as.Lhs) == 1 && nsrc(as.Lhs[0]) == "event" {
				res.slot, res.slotCap = w.slot(as.Rhs[0])
			}

			res.scanStep = nsrc(fs.Body.List[1]) == "pos++" && nsrc(fs.Body.List[2]) == "ifevent.Resource.Metadata().ID()==id{break}"
		}

		res.deliver = nsrc(next()) == "collection.mu.Unlock()" &&
			nsrc(next()) == "ifevent.Resource.Metadata().ID()!=id{continue}" &&
			nsrc(next()) == "if!channel.SendWithContext(ctx,ch,event){return}" && i == len(body)

		return res
	}

	// first := X % cap; last := Y % cap
	firstCap, lastCap := ".unknown", ".unknown"

	if as, ok := next().(*ast.AssignStmt); ok && as.Tok == token.DEFINE && len(as.Lhs) == 1 && nsrc(as.Lhs[0]) == "first" {
		res.first, firstCap = w.modCap(as.Rhs[0])
	}

	if as, ok := next().(*ast.AssignStmt); ok && as.Tok == token.DEFINE && len(as.Lhs) == 1 && nsrc(as.Lhs[0]) == "last" {
		res.last, lastCap = w.modCap(as.Rhs[0])
	}

	if firstCap == lastCap {
		res.slotCap = firstCap
	}

	if nsrc(next()) != "varevents[]state.Event" {
		return res
	}

	if is, ok := next().(*ast.IfStmt); ok && is.Init == nil && is.Else != nil {
		res.batchGuard = w.test(is.Cond)

		if nsrc(is.Body) == "{events=slices.Clone(collection.stream[first:last])}" &&
			nsrc(is.Else) == "{events=slices.Concat(collection.stream[first:],collection.stream[:last])}" {
			res.batchCopy = ".cloneOrConcat"
		}
	}

	if as, ok := next().(*ast.AssignStmt); ok && as.Tok == token.ASSIGN && len(as.Lhs) == 1 && nsrc(as.Lhs[0]) == "pos" {
		res.posAfter = w.operand(as.Rhs[0])
	}

	res.deliver = nsrc(next()) == "collection.mu.Unlock()" && strings.HasPrefix(nsrc(next()), "events=filterInPlaceMutating(events,func(event*state.Event)bool{")

	return res
}

// initBookmark: the `Bookmark:` of every Bootstrapped / Noop event literal of WatchAll — the position expression
// and whether it is evaluated after the start switch (inside the goroutine, or a top-level local defined after
// the switch) or before it.
func (w *watchX) initBookmark(list []ast.Stmt, swIdx int) (string, string) {
	if swIdx < 0 {
		return ".unknown", ".unknown"
	}

	// top-level locals `v := encodeBookmark(X)` and where they are defined
	type def struct {
		idx int
		arg ast.Expr
	}

	defs := map[string]def{}

	for i, st := range list {
		if as, ok := st.(*ast.AssignStmt); ok && as.Tok == token.DEFINE && len(as.Lhs) == 1 && len(as.Rhs) == 1 {
			if c, ok := as.Rhs[0].(*ast.CallExpr); ok && nsrc(c.Fun) == "encodeBookmark" && len(c.Args) == 1 {
				defs[nsrc(as.Lhs[0])] = def{i, c.Args[0]}
			}
		}
	}

	at, pos, n := "", "", 0
	bad := false

	note := func(a, p string) {
		n++

		if (at != "" && at != a) || (pos != "" && pos != p) {
			bad = true
		}

		at, pos = a, p
	}

	for i, st := range list {
		gs, isGo := st.(*ast.GoStmt)

		ast.Inspect(st, func(nd ast.Node) bool {
			cl, ok := nd.(*ast.CompositeLit)
			if !ok || nsrc(cl.Type) != "state.Event" {
				return true
			}

			typ, bm := "", ast.Expr(nil)

			for _, e := range cl.Elts {
				if kv, ok := e.(*ast.KeyValueExpr); ok {
					switch nsrc(kv.Key) {
					case "Type":
						typ = nsrc(kv.Value)
					case "Bookmark":
						bm = kv.Value
					}
				}
			}

			if typ != "state.Bootstrapped" && typ != "state.Noop" {
				return true
			}

			switch {
			case bm == nil:
				bad = true
			case isGo && gs != nil && i > swIdx:
				if c, ok := bm.(*ast.CallExpr); ok && nsrc(c.Fun) == "encodeBookmark" && len(c.Args) == 1 {
					note(".afterSwitch", w.operand(c.Args[0]))
				} else if d, ok := defs[nsrc(bm)]; ok {
					if d.idx > swIdx {
						note(".afterSwitch", w.operand(d.arg))
					} else {
						note(".beforeSwitch", w.operand(d.arg))
					}
				} else {
					bad = true
				}
			default:
				bad = true
			}

			return true
		})
	}

	if bad || n != 3 {
		return ".unknown", ".unknown"
	}

	return at, pos
}

// rewriteMode: the two rewriting cases of the Updated branch of WatchAll's filter closure, and that
// filterInPlaceMutating hands the closure a pointer to the element it then keeps.
func rewriteMode(f *ast.File, fd *ast.FuncDecl) string {
	keeps := false

	if fm := method(f, "", "filterInPlaceMutating"); fm != nil && fm.Body != nil {
		keeps = strings.Contains(nsrc(fm.Body), "for_,v:=rangeslc{iffn(&v){r=append(r,v)}}")
	}

	if !keeps {
		return ".unknown"
	}

	modes := map[string]int{}
	cases := 0

	ast.Inspect(fd.Body, func(n ast.Node) bool {
		sw, ok := n.(*ast.SwitchStmt)
		if !ok || sw.Tag != nil {
			return true
		}

		for _, c := range sw.Body.List {
			cc := c.(*ast.CaseClause)
			if len(cc.List) != 1 {
				continue
			}

			target := ""

			switch nsrc(cc.List[0]) {
			case "oldMatches&&!newMatches":
				target = "state.Destroyed"
			case "!oldMatches&&newMatches":
				target = "state.Created"
			default:
				continue
			}

			cases++

			texts := stmtTextsNS(cc.Body)

			switch {
			case len(texts) == 3 && texts[0] == "event.Type="+target && texts[1] == "event.Old=nil" && texts[2] == "returntrue":
				modes[".inPlace"]++
			case len(texts) == 2 && strings.HasPrefix(texts[0], "*event=state.Event{") && texts[1] == "returntrue" &&
				strings.Contains(texts[0], "Type:"+target) && !strings.Contains(texts[0], "Bookmark:"):
				modes[".freshEvent"]++
			default:
				modes[".unknown"]++
			}
		}

		return true
	})

	if cases == 2 && len(modes) == 1 {
		for m := range modes {
			return m
		}
	}

	return ".unknown"
}
