package main

import (
	"fmt"
	"go/ast"
	"go/token"
	"os"
	"path/filepath"
	"regexp"
	"strconv"
	"strings"
)

// genQueue regenerates Cosi/Gen/Queue.lean from
//
//	pkg/controller/runtime/internal/qruntime/internal/queue/queue.go  (select arms of Run)
//	pkg/controller/runtime/internal/qruntime/backoff.go               (per-key backoff construction)
//	go.mod + the pinned github.com/cenkalti/backoff/v4 exponential.go (default constants)
//
// Unknown shapes are emitted as the values under which the C09 theorems do NOT hold
// (stale requeue value overwrites, parked value not re-pushed, fresh value not
// overwriting, zero intervals), so an unreadable source breaks the proofs.
func genQueue(repo, out string) {
	const ns = "Cosi.Gen.Queue"

	l := newLean("Queue.lean", ns)
	qf := parse(filepath.Join(repo, "pkg/controller/runtime/internal/qruntime/internal/queue/queue.go"))

	// --- queue.Run: the pqueue.Push calls of the release and put arms
	pushCalls := func(n ast.Node) []string {
		var res []string

		ast.Inspect(n, func(x ast.Node) bool {
			if c, ok := x.(*ast.CallExpr); ok && src(c.Fun) == "pqueue.Push" {
				res = append(res, src(c))
			}

			return true
		})

		return res
	}

	var releaseArm, putArm *ast.CommClause

	arms := 0

	if fd := method(qf, "Queue[K, V]", "Run"); fd != nil {
		ast.Inspect(fd.Body, func(x ast.Node) bool {
			sel, ok := x.(*ast.SelectStmt)
			if !ok {
				return true
			}

			for _, c := range sel.Body.List {
				cc := c.(*ast.CommClause) //nolint:forcetypeassert
				arms++

				switch src(cc.Comm) {
				case "released := <-queue.releaseCh":
					releaseArm = cc
				case "item := <-queue.putCh":
					putArm = cc
				}
			}

			return false
		})
	}

	boolArg := func(call, prefix string) (bool, bool) {
		if !strings.HasPrefix(call, prefix) || !strings.HasSuffix(call, ")") {
			return false, false
		}

		switch strings.TrimSuffix(strings.TrimPrefix(call, prefix), ")") {
		case "true":
			return true, true
		case "false":
			return false, true
		}

		return false, false
	}

	// fail-closed defaults
	requeueOverwrite, onHoldOverwrite, putOverwrite, onHoldRepush := true, false, false, false
	onHoldPutLatest := false
	known := arms == 5

	if releaseArm != nil {
		calls := pushCalls(releaseArm)
		// statement shape: Remove; if !IsZero {Push(.., false)}; if parked {delete; Push(.., now, true)}
		okShape := len(releaseArm.Body) == 3 && src(releaseArm.Body[0]) == "onHold.Remove(released.Key)"

		if is, ok := releaseArm.Body[min(1, len(releaseArm.Body)-1)].(*ast.IfStmt); !ok || src(is.Cond) != "!released.ReleaseAfter.IsZero()" || is.Else != nil {
			okShape = false
		}

		if is, ok := releaseArm.Body[len(releaseArm.Body)-1].(*ast.IfStmt); !ok || is.Init == nil ||
			src(is.Init) != "onHoldValue, wasOnHold := onHoldQueue[released.Key]" || src(is.Cond) != "wasOnHold" || is.Else != nil ||
			len(is.Body.List) != 2 || src(is.Body.List[0]) != "delete(onHoldQueue, released.Key)" {
			okShape = false
		}

		if okShape && len(calls) == 2 {
			a, ok1 := boolArg(calls[0], "pqueue.Push(released.Key, released.Value, released.ReleaseAfter, ")
			b, ok2 := boolArg(calls[1], "pqueue.Push(released.Key, onHoldValue, time.Now(), ")

			if ok1 && ok2 {
				requeueOverwrite, onHoldOverwrite, onHoldRepush = a, b, true
			} else {
				known = false
			}
		} else {
			known = false
		}
	} else {
		known = false
	}

	if putArm != nil {
		calls := pushCalls(putArm)
		okShape := len(putArm.Body) == 2

		if okShape {
			is, ok := putArm.Body[0].(*ast.IfStmt)
			if !ok || src(is.Cond) != "onHold.Contains(item.Key)" || len(pushCalls(is)) != 0 {
				okShape = false
			} else if last, ok := is.Body.List[len(is.Body.List)-1].(*ast.BranchStmt); !ok || last.Tok != token.CONTINUE {
				okShape = false
			}
		}

		if okShape {
			// a Put for a key that is being processed parks the value — the LATEST one
			is := putArm.Body[0].(*ast.IfStmt)

			var body []string
			for _, st := range is.Body.List {
				body = append(body, src(st))
			}

			onHoldPutLatest = strings.Join(body, " ;; ") == "_, alreadyOnHold := onHoldQueue[item.Key] ;; onHoldQueue[item.Key] = item.Value ;; if !alreadyOnHold { queue.length.Add(1) } ;; continue"
		}

		if okShape && len(calls) == 1 {
			if a, ok := boolArg(calls[0], "pqueue.Push(item.Key, item.Value, time.Now(), "); ok {
				putOverwrite = a
			} else {
				known = false
			}
		} else {
			known = false
		}
	} else {
		known = false
	}

	l.line("/-- put arm, key on hold: `onHoldQueue[key] = value` unconditionally (the latest value is parked), length grows only for a new entry -/")
	l.line("def onHoldPutKeepsLatest : Bool := %s", leanBool(onHoldPutLatest))
	l.line("/-- `overwriteValue` of `pqueue.Push(released.Key, released.Value, released.ReleaseAfter, _)` (release arm of queue.Run) -/")
	l.line("def requeueOverwrite : Bool := %s", leanBool(requeueOverwrite))
	l.line("/-- the release arm deletes a parked value from onHoldQueue and pushes it with time.Now() -/")
	l.line("def onHoldRepush : Bool := %s", leanBool(onHoldRepush))
	l.line("/-- `overwriteValue` of that push -/")
	l.line("def onHoldOverwrite : Bool := %s", leanBool(onHoldOverwrite))
	l.line("/-- `overwriteValue` of `pqueue.Push(item.Key, item.Value, time.Now(), _)` (put arm) -/")
	l.line("def putOverwrite : Bool := %s", leanBool(putOverwrite))
	l.line("/-- the select of queue.Run has the five recognised arms in the recognised shape -/")
	l.line("def runShapeKnown : Bool := %s", leanBool(known))

	// --- backoff.go
	bf := parse(filepath.Join(repo, "pkg/controller/runtime/internal/qruntime/backoff.go"))
	defaultCtor, maxElapsedZero, clearDeletes := false, false, false

	if fd := method(bf, "Adapter", "getBackoffInterval"); fd != nil {
		ctors, zero, other := 0, 0, 0

		ast.Inspect(fd.Body, func(x ast.Node) bool {
			as, ok := x.(*ast.AssignStmt)
			if !ok {
				return true
			}

			s := src(as)

			switch {
			case s == "bckoff = backoff.NewExponentialBackOff()":
				ctors++
			case s == "bckoff.MaxElapsedTime = 0":
				zero++
			case strings.HasPrefix(s, "bckoff."): // any other field tweak is not modelled
				other++
			case strings.HasPrefix(s, "bckoff =") || strings.HasPrefix(s, "bckoff :="):
				other++
			}

			return true
		})

		ret, ok := lastReturn(fd.Body)
		defaultCtor = ctors == 1 && other == 0 && ok && ret == "bckoff.NextBackOff()"
		maxElapsedZero = zero == 1
	}

	if fd := method(bf, "Adapter", "clearBackoff"); fd != nil {
		for _, st := range fd.Body.List {
			if src(st) == "delete(adapter.backoffs, item)" {
				clearDeletes = true
			}
		}
	}

	l.line("/-- getBackoffInterval: `backoff.NewExponentialBackOff()` without options, then `NextBackOff()` -/")
	l.line("def backoffDefaultCtor : Bool := %s", leanBool(defaultCtor))
	l.line("/-- getBackoffInterval: `MaxElapsedTime = 0` (the backoff never returns Stop) -/")
	l.line("def backoffMaxElapsedZero : Bool := %s", leanBool(maxElapsedZero))
	l.line("/-- clearBackoff: `delete(adapter.backoffs, item)` -/")
	l.line("def clearDeletes : Bool := %s", leanBool(clearDeletes))

	// --- qruntime.runReconcile: what the worker does with the outcome of a reconcile
	known, guard := reconcileOutcomeSwitch(parse(filepath.Join(repo, "pkg/controller/runtime/internal/qruntime/qruntime.go")))

	l.line("/-- qruntime.runReconcile, the worker body `func() { defer item.Release(); … }()`: a RequeueError is unwrapped into (reconcileError, interval, requeued = true); `switch { case skipped: clearBackoff … case reconcileError != nil: <failBackoffGuard> … default: clearBackoff … }`; last statement `if interval != 0 { item.Requeue(time.Now().Add(interval)) }`; `interval` is assigned nowhere else -/")
	l.line("def outcomeSwitchKnown : Bool := %s", leanBool(known))
	l.line("/-- the guard of `interval = adapter.getBackoffInterval(item.Key())` in `case reconcileError != nil` -/")
	l.line("def failBackoffGuard : FailGuard := .%s", guard)

	// --- cenkalti defaults of the pinned version
	c := cenkaltiDefaults(repo)

	l.line("/-- github.com/cenkalti/backoff/v4 %s exponential.go: Default* constants as wired by NewExponentialBackOff (ns; factors as num/den; 0 = not found) -/", c.version)
	l.line("def initialIntervalNs : Nat := %d", c.initial)
	l.line("def maxIntervalNs : Nat := %d", c.max)
	l.line("def multiplierNum : Nat := %d", c.mulNum)
	l.line("def multiplierDen : Nat := %d", c.mulDen)
	l.line("def randomizationNum : Nat := %d", c.rfNum)
	l.line("def randomizationDen : Nat := %d", c.rfDen)
	// containers/priority_queue.go: Peek yields the head iff its release time is not after `now`; Push of an existing key
	// keeps the entry where it is iff the new release time is strictly later
	pqf := parse(filepath.Join(repo, "pkg/controller/runtime/internal/qruntime/internal/containers/priority_queue.go"))
	peekLE, pushLater := false, false

	if fd := method(pqf, "PriorityQueue[K, V]", "Peek"); fd != nil && fd.Body != nil && len(fd.Body.List) == 2 {
		peekLE = src(fd.Body.List[0]) == "if len(queue.items) > 0 { delay := queue.items[0].ReleaseAfter.Sub(now) if delay <= 0 { return optional.Some(queue.items[0].Key), optional.Some(queue.items[0].Value), 0 } return optional.None[K](), optional.None[V](), delay }" &&
			src(fd.Body.List[1]) == "return optional.None[K](), optional.None[V](), 0"
	}

	if fd := method(pqf, "PriorityQueue[K, V]", "Push"); fd != nil && fd.Body != nil && len(fd.Body.List) >= 2 {
		pushLater = src(fd.Body.List[1]) == "if idx != -1 { if overwriteValue { queue.items[idx].Value = value } if releaseAfter.Compare(queue.items[idx].ReleaseAfter) > 0 { return false } queue.items = slices.Delete(queue.items, idx, idx+1) }"
	}

	l.line("/-- PriorityQueue.Peek: the head is yielded iff `ReleaseAfter.Sub(now) <= 0`, else its delay is returned -/")
	l.line("def pqPeekDueLE : Bool := %s", leanBool(peekLE))
	l.line("/-- PriorityQueue.Push of an existing key: value overwritten on request, entry kept in place iff the new time is strictly later, else re-inserted -/")
	l.line("def pqPushKeepsIfLater : Bool := %s", leanBool(pushLater))
	l.write(out, ns)
}

// reconcileOutcomeSwitch recognises the outcome handling of qruntime.runReconcile (see the doc strings emitted by
// genQueue). Anything unexpected gives (false, "unknown").
func reconcileOutcomeSwitch(qr *ast.File) (bool, string) {
	fd := method(qr, "Adapter", "runReconcile")
	if fd == nil || fd.Body == nil {
		return false, "unknown"
	}

	// the worker body: the function literal that starts with `defer item.Release()`
	var body []ast.Stmt

	ast.Inspect(fd.Body, func(x ast.Node) bool {
		if fl, ok := x.(*ast.FuncLit); ok && body == nil && len(fl.Body.List) > 0 && src(fl.Body.List[0]) == "defer item.Release()" {
			body = fl.Body.List
		}

		return body == nil
	})

	if body == nil {
		return false, "unknown"
	}

	const (
		backoffAssign = "interval = adapter.getBackoffInterval(item.Key())"
		clear         = "adapter.clearBackoff(item.Key())"
	)

	// every assignment to `interval` inside the worker body, by text
	var intervalAssigns []string

	for _, st := range body {
		ast.Inspect(st, func(x ast.Node) bool {
			switch n := x.(type) {
			case *ast.AssignStmt:
				for _, lhs := range n.Lhs {
					if src(lhs) == "interval" {
						intervalAssigns = append(intervalAssigns, src(n))
					}
				}
			case *ast.IncDecStmt:
				if src(n.X) == "interval" {
					intervalAssigns = append(intervalAssigns, src(n))
				}
			case *ast.UnaryExpr:
				if n.Op == token.AND && src(n.X) == "interval" {
					intervalAssigns = append(intervalAssigns, src(n))
				}
			}

			return true
		})
	}

	okAssigns := len(intervalAssigns) == 2 && intervalAssigns[0] == "interval = requeueError.Interval()" && intervalAssigns[1] == backoffAssign

	unwrap, skippedDef, requeueLast := false, false, false

	var sw *ast.SwitchStmt

	for i, st := range body {
		switch n := st.(type) {
		case *ast.IfStmt:
			if src(n.Cond) == "errors.As(reconcileError, &requeueError)" && n.Init == nil && n.Else == nil && len(n.Body.List) == 3 &&
				src(n.Body.List[0]) == "reconcileError = requeueError.Err()" && src(n.Body.List[1]) == "interval = requeueError.Interval()" &&
				src(n.Body.List[2]) == "requeued = true" {
				unwrap = true
			}

			if i == len(body)-1 && src(n.Cond) == "interval != 0" && n.Init == nil && n.Else == nil && len(n.Body.List) == 1 &&
				src(n.Body.List[0]) == "item.Requeue(time.Now().Add(interval))" {
				requeueLast = true
			}
		case *ast.AssignStmt:
			if src(n) == "skipped := xerrors.TagIs[qtransform.SkipReconcileTag](reconcileError)" {
				skippedDef = true
			}
		case *ast.SwitchStmt:
			if n.Tag == nil && n.Init == nil && containsCall(n, "adapter.clearBackoff(") {
				if sw != nil {
					return false, "unknown"
				}

				sw = n
			}
		}
	}

	// item.Requeue / item.Release are called nowhere else in the worker body
	requeues := 0

	for _, st := range body {
		ast.Inspect(st, func(x ast.Node) bool {
			if c, ok := x.(*ast.CallExpr); ok && (src(c.Fun) == "item.Requeue" || src(c.Fun) == "item.Release") {
				requeues++
			}

			return true
		})
	}

	if sw == nil || len(sw.Body.List) != 3 || requeues != 2 {
		return false, "unknown"
	}

	clause := func(i int) (string, []ast.Stmt) {
		cc := sw.Body.List[i].(*ast.CaseClause) //nolint:forcetypeassert
		if len(cc.List) == 0 {
			return "default", cc.Body
		}

		if len(cc.List) != 1 {
			return "?", cc.Body
		}

		return src(cc.List[0]), cc.Body
	}

	c0, b0 := clause(0)
	c1, b1 := clause(1)
	c2, b2 := clause(2)

	clears := func(b []ast.Stmt) bool {
		n := 0

		for _, st := range b {
			if containsCall(st, "adapter.clearBackoff(") {
				n++
			}
		}

		return len(b) > 0 && src(b[0]) == clear && n == 1
	}

	shape := c0 == "skipped" && c1 == "reconcileError != nil" && c2 == "default" && clears(b0) && clears(b2) && len(b1) > 0
	for _, st := range b1 {
		if containsCall(st, "adapter.clearBackoff(") {
			shape = false
		}
	}

	guard := "unknown"

	if shape {
		switch n := b1[0].(type) {
		case *ast.IfStmt:
			if n.Init == nil && n.Else == nil && len(n.Body.List) == 1 && src(n.Body.List[0]) == backoffAssign {
				switch src(n.Cond) {
				case "interval == 0":
					guard = "intervalZero"
				case "!requeued":
					guard = "notRequeued"
				}
			}
		case *ast.AssignStmt:
			if src(n) == backoffAssign {
				guard = "always"
			}
		}
	}

	known := shape && okAssigns && unwrap && skippedDef && requeueLast && guard != "unknown"
	if !known {
		return false, "unknown"
	}

	return true, guard
}

type cenkalti struct {
	version                                    string
	initial, max, mulNum, mulDen, rfNum, rfDen int64
}

var durUnits = map[string]int64{
	"time.Nanosecond": 1, "time.Microsecond": 1e3, "time.Millisecond": 1e6, "time.Second": 1e9, "time.Minute": 60e9, "time.Hour": 3600e9,
}

func parseDur(s string) int64 {
	parts := strings.Split(s, " * ")
	if len(parts) != 2 {
		return 0
	}

	n, err := strconv.ParseInt(parts[0], 10, 64)
	if err != nil {
		return 0
	}

	return n * durUnits[parts[1]]
}

// parseRat turns a decimal literal like 1.5 into 15/10.
func parseRat(s string) (int64, int64) {
	if !regexp.MustCompile(`^[0-9]+(\.[0-9]+)?$`).MatchString(s) {
		return 0, 0
	}

	ip, fp, _ := strings.Cut(s, ".")

	num, err := strconv.ParseInt(ip+fp, 10, 64)
	if err != nil {
		return 0, 0
	}

	den := int64(1)
	for range fp {
		den *= 10
	}

	return num, den
}

func cenkaltiDefaults(repo string) cenkalti {
	var c cenkalti

	gomod, err := os.ReadFile(filepath.Join(repo, "go.mod"))
	if err != nil {
		return c
	}

	m := regexp.MustCompile(`(?m)^\s*(?:require\s+)?github\.com/cenkalti/backoff/v4\s+(v[^\s]+)`).FindSubmatch(gomod)
	if m == nil {
		return c
	}

	c.version = string(m[1])

	var roots []string

	if v := os.Getenv("GOMODCACHE"); v != "" {
		roots = append(roots, v)
	}

	if v := os.Getenv("GOPATH"); v != "" {
		roots = append(roots, filepath.Join(v, "pkg/mod"))
	}

	if h, err := os.UserHomeDir(); err == nil {
		roots = append(roots, filepath.Join(h, "go/pkg/mod"))
	}

	roots = append(roots, filepath.Join(repo, "vendor"))

	var f *ast.File

	for _, r := range roots {
		for _, p := range []string{
			filepath.Join(r, "github.com/cenkalti/backoff/v4@"+c.version, "exponential.go"),
			filepath.Join(r, "github.com/cenkalti/backoff/v4", "exponential.go"),
		} {
			if _, err := os.Stat(p); err == nil {
				f = parse(p)

				break
			}
		}

		if f != nil {
			break
		}
	}

	if f == nil {
		return c
	}

	consts := map[string]string{}

	for _, d := range f.Decls {
		gd, ok := d.(*ast.GenDecl)
		if !ok || gd.Tok != token.CONST {
			continue
		}

		for _, sp := range gd.Specs {
			vs := sp.(*ast.ValueSpec) //nolint:forcetypeassert
			if len(vs.Names) == 1 && len(vs.Values) == 1 {
				consts[vs.Names[0].Name] = src(vs.Values[0])
			}
		}
	}

	// the constructor must wire field X to DefaultX, and Reset must start from InitialInterval
	wired := map[string]string{}

	if fd := method(f, "", "NewExponentialBackOff"); fd != nil {
		ast.Inspect(fd.Body, func(x ast.Node) bool {
			if cl, ok := x.(*ast.CompositeLit); ok && src(cl.Type) == "ExponentialBackOff" {
				for _, e := range cl.Elts {
					if kv, ok := e.(*ast.KeyValueExpr); ok {
						wired[src(kv.Key)] = src(kv.Value)
					}
				}
			}

			return true
		})
	}

	resetOK := false

	if fd := method(f, "ExponentialBackOff", "Reset"); fd != nil {
		for _, st := range fd.Body.List {
			if src(st) == "b.currentInterval = b.InitialInterval" {
				resetOK = true
			}
		}
	}

	incrOK := false

	if fd := method(f, "ExponentialBackOff", "incrementCurrentInterval"); fd != nil && len(fd.Body.List) == 1 {
		if is, ok := fd.Body.List[0].(*ast.IfStmt); ok &&
			src(is.Cond) == "float64(b.currentInterval) >= float64(b.MaxInterval)/b.Multiplier" &&
			src(is.Body) == "{ b.currentInterval = b.MaxInterval }" &&
			src(is.Else) == "{ b.currentInterval = time.Duration(float64(b.currentInterval) * b.Multiplier) }" {
			incrOK = true
		}
	}

	if !resetOK || !incrOK {
		fmt.Fprintln(os.Stderr, "extract: cenkalti ExponentialBackOff has an unrecognised shape")

		return c
	}

	if wired["InitialInterval"] == "DefaultInitialInterval" {
		c.initial = parseDur(consts["DefaultInitialInterval"])
	}

	if wired["MaxInterval"] == "DefaultMaxInterval" {
		c.max = parseDur(consts["DefaultMaxInterval"])
	}

	if wired["Multiplier"] == "DefaultMultiplier" {
		c.mulNum, c.mulDen = parseRat(consts["DefaultMultiplier"])
	}

	if wired["RandomizationFactor"] == "DefaultRandomizationFactor" {
		c.rfNum, c.rfDen = parseRat(consts["DefaultRandomizationFactor"])
	}

	return c
}
