package main

import (
	"fmt"
	"go/ast"
	"go/token"
	"path/filepath"
	"strings"
)

// genDepDB regenerates Cosi/Gen/DepDB.lean (property C17) from
//
//	pkg/controller/runtime.go                               (numeric values of the Input* constants)
//	pkg/controller/runtime/internal/rruntime/rruntime.go    (UpdateInputs: rejected kinds, check before writes)
//	pkg/controller/runtime/internal/qruntime/qruntime.go    (NewAdapter: rejected kinds, concurrency check first)
//	pkg/controller/runtime/runtime.go                       (Register*: rollback of the database on failure)
//
// Fail closed: an unrecognised shape yields an empty kind list / false.
func genDepDB(repo, out string) {
	const ns = "Cosi.Gen.DepDB"

	l := newLean("DepDB.lean", ns)

	kinds := inputKindValues(parse(filepath.Join(repo, "pkg/controller/runtime.go")))
	rr := parse(filepath.Join(repo, "pkg/controller/runtime/internal/rruntime/rruntime.go"))
	qr := parse(filepath.Join(repo, "pkg/controller/runtime/internal/qruntime/qruntime.go"))
	rt := parse(filepath.Join(repo, "pkg/controller/runtime/runtime.go"))

	// rruntime.UpdateInputs
	var (
		rReject      []string
		rCheckBefore bool
	)

	if fd := method(rr, "Adapter", "UpdateInputs"); fd != nil && fd.Body != nil {
		sawWrite := false

		for _, st := range fd.Body.List {
			if rs, ok := st.(*ast.RangeStmt); ok && !sawWrite && rReject == nil {
				if ks, ok := rejectingCases(rs.Body, "dep.Kind", kinds); ok && src(rs.X) == "deps" {
					rReject = ks
					rCheckBefore = true

					continue
				}
			}

			if containsCall(st, "adapter.depDB.AddControllerInput") || containsCall(st, "adapter.depDB.DeleteControllerInput") {
				sawWrite = true
			}
		}

		if !sawWrite { // the merge loop was not found: nothing can be said about the order
			rCheckBefore = false
		}
	}

	// qruntime.NewAdapter
	var (
		qReject     []string
		qConcBefore bool
	)

	if fd := method(qr, "", "NewAdapter"); fd != nil && fd.Body != nil {
		sawWrite, sawConc := false, false

		for _, st := range fd.Body.List {
			if is, ok := st.(*ast.IfStmt); ok && src(is.Cond) == "concurrency == 0" && !sawWrite {
				if ret, ok := lastReturn(is.Body); ok && strings.HasPrefix(ret, "nil, ") {
					sawConc = true
				}
			}

			if rs, ok := st.(*ast.RangeStmt); ok && src(rs.X) == "settings.Inputs" && qReject == nil {
				if ks, ok := rejectingCases(rs.Body, "input.Kind", kinds); ok {
					qReject = ks
				}
			}

			if containsCall(st, "adapterOptions.DepDB.Add") {
				sawWrite = true
			}
		}

		qConcBefore = sawConc && sawWrite
	}

	// Runtime.RegisterController / RegisterQController
	rollsBack := true

	for _, m := range []struct{ name, ctor string }{{"RegisterController", "rruntime.NewAdapter("}, {"RegisterQController", "qruntime.NewAdapter("}} {
		fd := method(rt, "Runtime", m.name)
		if fd == nil || fd.Body == nil {
			rollsBack = false

			continue
		}

		found := false

		for i, st := range fd.Body.List {
			as, ok := st.(*ast.AssignStmt)
			if !ok || as.Tok != token.DEFINE || !strings.HasPrefix(src(as), "adapter, err := "+m.ctor) || i+1 >= len(fd.Body.List) {
				continue
			}

			is, ok := fd.Body.List[i+1].(*ast.IfStmt)
			if !ok || src(is.Cond) != "err != nil" {
				continue
			}

			for _, bs := range is.Body.List {
				if es, ok := bs.(*ast.ExprStmt); ok && src(es.X) == "runtime.depDB.RollbackController(name)" {
					found = true
				}
			}
		}

		if !found {
			rollsBack = false
		}
	}

	l.line("/-- input kinds for which rruntime.(*Adapter).UpdateInputs returns an error (numeric values of the controller.Input* constants) -/")
	l.line("def rRejectKinds : List Nat := %s", leanList(rReject))
	l.line("/-- input kinds for which qruntime.NewAdapter returns an error -/")
	l.line("def qRejectKinds : List Nat := %s", leanList(qReject))
	l.line("/-- rruntime.UpdateInputs validates all kinds before its first database call -/")
	l.line("def rKindCheckBeforeWrites : Bool := %s", leanBool(rCheckBefore))
	l.line("/-- qruntime.NewAdapter's `concurrency == 0` rejection precedes the first database write -/")
	l.line("def qConcurrencyBeforeWrites : Bool := %s", leanBool(qConcBefore))
	l.line("/-- Runtime.RegisterController and RegisterQController undo the database writes of a failed NewAdapter -/")
	l.line("def registrationRollsBack : Bool := %s", leanBool(rollsBack))
	// dependency/database.go: the two spots of the registry the model transcribes by hand and that seeded changes hit
	dbf := parse(filepath.Join(repo, "pkg/controller/runtime/internal/dependency/database.go"))
	neighbourhood, rollbackShared := false, false

	if fd := method(dbf, "Database", "AddControllerInput"); fd != nil && fd.Body != nil {
		for i, st := range fd.Body.List {
			if src(st) == "for _, shift := range []int{-1, 0, 1} { if idx+shift >= 0 && idx+shift < len(existingInputs) { if existingInputs[idx+shift].EqualKeys(dep) { return fmt.Errorf(\"duplicate controller input: %q -> %v\", controllerName, dep) } } }" &&
				i > 0 && src(fd.Body.List[i-1]) == "idx, _ := slices.BinarySearchFunc(existingInputs, dep, controller.Input.Compare)" &&
				i+1 < len(fd.Body.List) && src(fd.Body.List[i+1]) == "db.controllerInputs[controllerName] = slices.Insert(existingInputs, idx, dep)" {
				neighbourhood = true
			}
		}
	}

	if fd := method(dbf, "Database", "RollbackController"); fd != nil && fd.Body != nil {
		for _, st := range fd.Body.List {
			if src(st) == "for resourceType, sharedControllers := range db.sharedOutputs { if sharedControllers = slices.DeleteFunc(sharedControllers, isController); len(sharedControllers) == 0 { delete(db.sharedOutputs, resourceType) } else { db.sharedOutputs[resourceType] = sharedControllers } }" {
				rollbackShared = true
			}
		}
	}

	l.line("/-- AddControllerInput: binary search by Input.Compare, duplicate keys looked for at idx-1, idx, idx+1 within bounds, then inserted at idx -/")
	l.line("def addInputNeighbourhood : Bool := %s", leanBool(neighbourhood))
	l.line("/-- RollbackController: the controller is removed from every shared-output list, and a list that becomes empty is deleted -/")
	l.line("def rollbackDropsEmptyShared : Bool := %s", leanBool(rollbackShared))
	l.write(out, ns)
}

// inputKindValues reads the `InputWeak InputKind = iota ...` const block.
func inputKindValues(f *ast.File) map[string]int {
	res := map[string]int{}

	for _, d := range f.Decls {
		gd, ok := d.(*ast.GenDecl)
		if !ok || gd.Tok != token.CONST || len(gd.Specs) == 0 {
			continue
		}

		first, ok := gd.Specs[0].(*ast.ValueSpec)
		if !ok || len(first.Names) != 1 || first.Names[0].Name != "InputWeak" || len(first.Values) != 1 || src(first.Values[0]) != "iota" {
			continue
		}

		for i, s := range gd.Specs {
			vs, ok := s.(*ast.ValueSpec)
			if !ok || len(vs.Names) != 1 || (i > 0 && len(vs.Values) != 0) {
				return map[string]int{}
			}

			res["controller."+vs.Names[0].Name] = i
		}
	}

	return res
}

// rejectingCases finds `switch <tag> { case A, B: ... return ...; case C: }` as the first
// statement of a loop body and lists the numeric values of the cases whose body returns.
func rejectingCases(body *ast.BlockStmt, tag string, kinds map[string]int) ([]string, bool) {
	if body == nil || len(body.List) == 0 {
		return nil, false
	}

	sw, ok := body.List[0].(*ast.SwitchStmt)
	if !ok || sw.Init != nil || src(sw.Tag) != tag {
		return nil, false
	}

	res := []string{}

	for _, c := range sw.Body.List {
		cc, ok := c.(*ast.CaseClause)
		if !ok {
			return nil, false
		}

		returns := false

		for _, st := range cc.Body {
			if _, ok := st.(*ast.ReturnStmt); ok {
				returns = true
			}
		}

		if cc.List == nil && returns { // a rejecting default: every other kind; not expressible as a list
			return nil, false
		}

		for _, e := range cc.List {
			v, known := kinds[src(e)]
			if !known {
				return nil, false
			}

			if returns {
				res = append(res, fmt.Sprint(v))
			}
		}
	}

	return res, true
}
