package main

import (
	"path/filepath"
)

// genNamespaced regenerates Cosi/Gen/Namespaced.lean (C01, C10) from pkg/state/impl/namespaced/namespaced.go:
//
//   - nsFastPath: getNamespace starts with `if s, ok := st.namespaces.Load(ns); ok { return s }`
//   - nsPublishLoadOrStore: it ends with `s, _ := st.namespaces.LoadOrStore(ns, st.builder(ns))` and `return s`,
//     and has no other statement
//   - nsRouteByNamespace: each of the eight CoreState methods is the single statement
//     `return st.getNamespace(<arg>.Namespace()).<SameMethod>(ctx, <args>...)` with the namespace of the resource,
//     pointer or kind it was called with
//
// Any other shape gives `false` (fail closed).
func genNamespaced(repo, out string) {
	const ns = "Cosi.Gen.Namespaced"

	l := newLean("Namespaced.lean", ns)
	f := parse(filepath.Join(repo, "pkg/state/impl/namespaced/namespaced.go"))

	fast, publish := false, false

	if fd := method(f, "State", "getNamespace"); fd != nil && fd.Body != nil && len(fd.Body.List) == 3 &&
		len(fd.Type.Params.List) == 1 && len(fd.Type.Params.List[0].Names) == 1 && fd.Type.Params.List[0].Names[0].Name == "ns" &&
		src(fd.Type.Params.List[0].Type) == "resource.Namespace" {
		fast = src(fd.Body.List[0]) == "if s, ok := st.namespaces.Load(ns); ok { return s }"
		publish = src(fd.Body.List[1]) == "s, _ := st.namespaces.LoadOrStore(ns, st.builder(ns))" && src(fd.Body.List[2]) == "return s"
	}

	route := true

	for _, m := range [][2]string{
		{"Get", "return st.getNamespace(ptr.Namespace()).Get(ctx, ptr, opts...)"},
		{"List", "return st.getNamespace(kind.Namespace()).List(ctx, kind, opts...)"},
		{"Create", "return st.getNamespace(res.Metadata().Namespace()).Create(ctx, res, opts...)"},
		{"Update", "return st.getNamespace(newResource.Metadata().Namespace()).Update(ctx, newResource, opts...)"},
		{"Destroy", "return st.getNamespace(ptr.Namespace()).Destroy(ctx, ptr, opts...)"},
		{"Watch", "return st.getNamespace(ptr.Namespace()).Watch(ctx, ptr, ch, opts...)"},
		{"WatchKind", "return st.getNamespace(kind.Namespace()).WatchKind(ctx, kind, ch, opts...)"},
		{"WatchKindAggregated", "return st.getNamespace(kind.Namespace()).WatchKindAggregated(ctx, kind, ch, opts...)"},
	} {
		fd := method(f, "State", m[0])
		if fd == nil || fd.Body == nil || len(fd.Body.List) != 1 || src(fd.Body.List[0]) != m[1] {
			route = false
		}
	}

	l.line("/-- `getNamespace` returns the state already published for the namespace when there is one -/")
	l.line("def nsFastPath : Bool := %s", leanBool(fast))
	l.line("/-- `getNamespace` publishes a freshly built state with LoadOrStore and returns what LoadOrStore returns -/")
	l.line("def nsPublishLoadOrStore : Bool := %s", leanBool(publish))
	l.line("/-- every CoreState method forwards to the state of the namespace of its argument, same method, same arguments -/")
	l.line("def nsRouteByNamespace : Bool := %s", leanBool(route))
	l.write(out, ns)
}
