package main

import (
	"go/ast"
	"path/filepath"
	"strings"
)

// genAlias regenerates Cosi/Gen/Alias.lean (property C19) from
//
//	pkg/resource/finalizer.go                       Finalizers.Add/Remove/Set
//	pkg/resource/internal/kv/kv.go                  KV.Set/Delete/Do (+ tempKV.Set/Delete)
//	pkg/state/impl/inmem/collection.go              Create/Update (copy in), Get/List (copy out)
//	pkg/controller/runtime/internal/cache/handler.go get/list (copy out)
//
// Every fact is a boolean "the body has exactly the recognised clone-before-write /
// deep-copy shape"; any other shape (also a missing function) gives false.
func genAlias(repo, out string) {
	const ns = "Cosi.Gen.Alias"

	l := newLean("Alias.lean", ns)
	fin := parse(filepath.Join(repo, "pkg/resource/finalizer.go"))
	kv := parse(filepath.Join(repo, "pkg/resource/internal/kv/kv.go"))
	coll := parse(filepath.Join(repo, "pkg/state/impl/inmem/collection.go"))
	hnd := parse(filepath.Join(repo, "pkg/controller/runtime/internal/cache/handler.go"))

	clone := map[string]bool{
		"finAdd":    finCloneFirst(method(fin, "Finalizers", "Add"), "*fins = slices.Clone(*fins)", true),
		"finRemove": finCloneFirst(method(fin, "Finalizers", "Remove"), "*fins = slices.Clone(*fins)", true),
		"finSet":    finCloneFirst(method(fin, "Finalizers", "Set"), "*fins = slices.Clone(other)", false),
		"kvSet":     kvSetShape(method(kv, "KV", "Set")),
		"kvDelete":  kvDeleteShape(method(kv, "KV", "Delete")),
		"kvDo":      kvDoShape(method(kv, "KV", "Do"), method(kv, "tempKV", "Set"), method(kv, "tempKV", "Delete")),
	}

	l.line("/-- the mutator body clones (allocates) before its first in-place write -/")
	l.line("def cloneBeforeWrite : Mutator → Bool")

	for _, m := range []string{"finAdd", "finRemove", "finSet", "kvSet", "kvDelete", "kvDo"} {
		l.line("  | .%s => %s", m, leanBool(clone[m]))
	}

	in := map[string]bool{
		"collCreate": collCopyIn(method(coll, "ResourceCollection", "Create"), "res", "resCopy", true),
		"collUpdate": collCopyIn(method(coll, "ResourceCollection", "Update"), "newResource", "newResourceCopy", false),
	}
	outF := map[string]bool{
		"collGet":   collGetShape(method(coll, "ResourceCollection", "Get")),
		"collList":  collListShape(method(coll, "ResourceCollection", "List")),
		"cacheGet":  cacheGetShape(method(hnd, "cacheHandler", "get")),
		"cacheList": cacheListShape(method(hnd, "cacheHandler", "list")),
	}

	sites := []string{"collCreate", "collUpdate", "collGet", "collList", "cacheGet", "cacheList"}

	l.line("/-- what the collection stores is a DeepCopy of the caller's object -/")
	l.line("def deepCopyIn : CopySite → Bool")

	for _, s := range sites {
		l.line("  | .%s => %s", s, leanBool(in[s]))
	}

	l.line("/-- what the method returns is a DeepCopy of the stored/cached object -/")
	l.line("def deepCopyOut : CopySite → Bool")

	for _, s := range sites {
		l.line("  | .%s => %s", s, leanBool(outF[s]))
	}

	l.line("def facts : AliasFacts := ⟨cloneBeforeWrite, deepCopyIn, deepCopyOut⟩")
	l.write(out, ns)
}

// stmts of a function body, nil-safe.
func bodyOf(fd *ast.FuncDecl) []ast.Stmt {
	if fd == nil || fd.Body == nil {
		return nil
	}

	return fd.Body.List
}

// writesThrough reports whether n contains an in-place write through expression
// `target` (a map or slice): `target[..] = ..`, `target[..] op= ..`, `delete(target, ..)`,
// `clear(target)`, `copy(target, ..)`, or an `append(target[..]..., ..)` / `append(target, ..)`
// (which may write into target's backing array).
func writesThrough(n ast.Node, target string) bool {
	found := false

	if n == nil {
		return false
	}

	ast.Inspect(n, func(x ast.Node) bool {
		switch v := x.(type) {
		case *ast.AssignStmt:
			for _, lhs := range v.Lhs {
				if ix, ok := lhs.(*ast.IndexExpr); ok && stripParens(src(ix.X)) == target {
					found = true
				}
			}
		case *ast.IncDecStmt:
			if ix, ok := v.X.(*ast.IndexExpr); ok && stripParens(src(ix.X)) == target {
				found = true
			}
		case *ast.CallExpr:
			fn := src(v.Fun)
			if (fn == "delete" || fn == "clear" || fn == "copy" || fn == "append" || fn == "slices.Delete" ||
				fn == "slices.Insert" || fn == "slices.Sort" || fn == "maps.Copy" || fn == "slices.Reverse") && len(v.Args) > 0 {
				a := v.Args[0]
				if sl, ok := a.(*ast.SliceExpr); ok {
					a = sl.X
				}

				if stripParens(src(a)) == target {
					found = true
				}
			}
		}

		return !found
	})

	return found
}

func stripParens(s string) string {
	for strings.HasPrefix(s, "(") && strings.HasSuffix(s, ")") {
		s = s[1 : len(s)-1]
	}

	return s
}

// finCloneFirst: the first statement of the body is exactly `cloneStmt`; when
// `only` is false the body must consist of that statement alone (Set). For Add/Remove
// the remaining statements may write through *fins (they then write the clone).
func finCloneFirst(fd *ast.FuncDecl, cloneStmt string, mayWriteAfter bool) bool {
	b := bodyOf(fd)
	if len(b) == 0 || src(b[0]) != cloneStmt {
		return false
	}

	if !mayWriteAfter {
		return len(b) == 1
	}

	// no re-assignment of *fins from anything but an append on *fins itself after the clone
	for _, st := range b[1:] {
		bad := false

		ast.Inspect(st, func(x ast.Node) bool {
			if as, ok := x.(*ast.AssignStmt); ok {
				for i, lhs := range as.Lhs {
					if src(lhs) != "*fins" {
						continue
					}

					if i >= len(as.Rhs) {
						bad = true

						continue
					}

					c, ok := as.Rhs[i].(*ast.CallExpr)
					if !ok || src(c.Fun) != "append" || len(c.Args) == 0 {
						bad = true

						continue
					}

					a := c.Args[0]
					if sl, ok := a.(*ast.SliceExpr); ok {
						a = sl.X
					}

					if stripParens(src(a)) != "*fins" {
						bad = true
					}
				}
			}

			return !bad
		})

		if bad {
			return false
		}
	}

	return true
}

// kvSetShape:
//
//	if kv.m == nil { kv.m = map[string]string{} } else { ...; kv.m = maps.Clone(kv.m) }
//	kv.m[key] = value
//
// and no other write through kv.m.
func kvSetShape(fd *ast.FuncDecl) bool {
	b := bodyOf(fd)
	if len(b) != 2 || src(b[1]) != "kv.m[key] = value" {
		return false
	}

	is, ok := b[0].(*ast.IfStmt)
	if !ok || is.Init != nil || src(is.Cond) != "kv.m == nil" || len(is.Body.List) != 1 ||
		src(is.Body.List[0]) != "kv.m = map[string]string{}" {
		return false
	}

	el, ok := is.Else.(*ast.BlockStmt)
	if !ok || len(el.List) == 0 || src(el.List[len(el.List)-1]) != "kv.m = maps.Clone(kv.m)" {
		return false
	}

	// the else-branch before the clone: only the "no change" early return, no write
	for _, st := range el.List[:len(el.List)-1] {
		if writesThrough(st, "kv.m") || assignsTo(st, "kv.m") {
			return false
		}
	}

	return true
}

func assignsTo(n ast.Node, target string) bool {
	found := false

	ast.Inspect(n, func(x ast.Node) bool {
		if as, ok := x.(*ast.AssignStmt); ok {
			for _, lhs := range as.Lhs {
				if src(lhs) == target {
					found = true
				}
			}
		}

		return !found
	})

	return found
}

// kvDeleteShape: the body never writes through kv.m; it builds `kvCopy := make(map[string]string, ...)`
// and ends with `kv.m = kvCopy`, which is the only assignment to kv.m.
func kvDeleteShape(fd *ast.FuncDecl) bool {
	b := bodyOf(fd)
	if len(b) < 2 || fd.Body == nil {
		return false
	}

	if writesThrough(fd.Body, "kv.m") {
		return false
	}

	if src(b[len(b)-1]) != "kv.m = kvCopy" {
		return false
	}

	made := false

	for _, st := range b[:len(b)-1] {
		if assignsTo(st, "kv.m") {
			return false
		}

		if strings.HasPrefix(src(st), "kvCopy := make(map[string]string") {
			made = true
		}
	}

	return made
}

// dirtyGuardedWrite: in a tempKV method every statement that writes through tmp.m at
// the top level of the body is immediately preceded by
//
//	if !tmp.dirty { <tmp.m = maps.Clone(tmp.m) on every path with tmp.m != nil>; tmp.dirty = true }
//
// and nothing else in the body writes through tmp.m.
func dirtyGuardedWrite(fd *ast.FuncDecl) bool {
	b := bodyOf(fd)
	if len(b) == 0 {
		return false
	}

	writes := 0

	for i, st := range b {
		if !writesThrough(st, "tmp.m") {
			if assignsTo(st, "tmp.m") && !isDirtyGuard(st) {
				return false
			}

			continue
		}

		// a write: must be a plain top-level statement preceded by the guard
		switch st.(type) {
		case *ast.AssignStmt, *ast.ExprStmt:
		default:
			return false
		}

		if i == 0 || !isDirtyGuard(b[i-1]) {
			return false
		}

		writes++
	}

	return writes == 1
}

func isDirtyGuard(st ast.Stmt) bool {
	is, ok := st.(*ast.IfStmt)
	if !ok || is.Init != nil || is.Else != nil || src(is.Cond) != "!tmp.dirty" || len(is.Body.List) != 2 {
		return false
	}

	if src(is.Body.List[1]) != "tmp.dirty = true" {
		return false
	}

	switch first := is.Body.List[0].(type) {
	case *ast.AssignStmt:
		return src(first) == "tmp.m = maps.Clone(tmp.m)"
	case *ast.IfStmt:
		// if tmp.m == nil { tmp.m = map[string]string{} } else { tmp.m = maps.Clone(tmp.m) }
		if first.Init != nil || src(first.Cond) != "tmp.m == nil" || len(first.Body.List) != 1 ||
			src(first.Body.List[0]) != "tmp.m = map[string]string{}" {
			return false
		}

		el, ok := first.Else.(*ast.BlockStmt)

		return ok && len(el.List) == 1 && src(el.List[0]) == "tmp.m = maps.Clone(tmp.m)"
	}

	return false
}

// kvDoShape: Do hands a tempKV over kv.m to the callback and copies the (possibly
// cloned) map back only when dirty; both tempKV writers clone on first write.
func kvDoShape(do, set, del *ast.FuncDecl) bool {
	b := bodyOf(do)
	if len(b) != 3 {
		return false
	}

	if src(b[0]) != "temp := &tempKV{m: kv.m}" || src(b[1]) != "ts(temp)" {
		return false
	}

	is, ok := b[2].(*ast.IfStmt)
	if !ok || is.Init != nil || is.Else != nil || src(is.Cond) != "temp.dirty" || len(is.Body.List) != 1 ||
		src(is.Body.List[0]) != "kv.m = temp.m" {
		return false
	}

	return dirtyGuardedWrite(set) && dirtyGuardedWrite(del)
}

// collCopyIn: the first statement is `<copy> := <arg>.DeepCopy()`, what goes into
// collection.storage / inject / publish / the backing store is <copy>, never <arg>.
func collCopyIn(fd *ast.FuncDecl, arg, cp string, viaInject bool) bool {
	b := bodyOf(fd)
	if len(b) == 0 || src(b[0]) != cp+" := "+arg+".DeepCopy()" {
		return false
	}

	stored := 0
	bad := false

	ast.Inspect(fd.Body, func(x ast.Node) bool {
		switch v := x.(type) {
		case *ast.AssignStmt:
			for i, lhs := range v.Lhs {
				if ix, ok := lhs.(*ast.IndexExpr); ok && src(ix.X) == "collection.storage" {
					if i < len(v.Rhs) && src(v.Rhs[i]) == cp {
						stored++
					} else {
						bad = true
					}
				}

				// the copy variable must not be re-bound
				if src(lhs) == cp && v != b[0] {
					bad = true
				}
			}
		case *ast.CallExpr:
			fn := src(v.Fun)
			if fn == "collection.inject" {
				if len(v.Args) == 1 && src(v.Args[0]) == cp {
					stored++
				} else {
					bad = true
				}
			}

			if fn == "collection.store.Put" {
				if len(v.Args) != 3 || src(v.Args[2]) != cp {
					bad = true
				}
			}
		case *ast.KeyValueExpr:
			if src(v.Key) == "Resource" && src(v.Value) != cp {
				bad = true
			}
		}

		return true
	})

	_ = viaInject

	return !bad && stored == 1
}

// collGetShape: `res, exists := collection.storage[resourceID]` ... `return res.DeepCopy(), nil`
// is the only non-error return.
func collGetShape(fd *ast.FuncDecl) bool {
	b := bodyOf(fd)
	if len(b) == 0 {
		return false
	}

	bound := false

	for _, st := range b {
		if src(st) == "res, exists := collection.storage[resourceID]" {
			bound = true
		}
	}

	if !bound {
		return false
	}

	ok := true
	n := 0

	ast.Inspect(fd.Body, func(x ast.Node) bool {
		if r, isRet := x.(*ast.ReturnStmt); isRet && len(r.Results) == 2 {
			if src(r.Results[0]) == "nil" {
				return true
			}

			if src(r.Results[0]) == "res.DeepCopy()" && src(r.Results[1]) == "nil" {
				n++
			} else {
				ok = false
			}
		}

		return true
	})

	return ok && n == 1
}

// collListShape: every append to result.Items appends `res.DeepCopy()` where res
// ranges over collection.storage.
func collListShape(fd *ast.FuncDecl) bool {
	if fd == nil || fd.Body == nil {
		return false
	}

	ok := true
	n := 0
	ranged := false

	ast.Inspect(fd.Body, func(x ast.Node) bool {
		switch v := x.(type) {
		case *ast.RangeStmt:
			if src(v.X) == "collection.storage" && src(v.Value) == "res" {
				ranged = true
			}
		case *ast.AssignStmt:
			for i, lhs := range v.Lhs {
				if src(lhs) != "result.Items" {
					continue
				}

				if i < len(v.Rhs) && src(v.Rhs[i]) == "append(result.Items, res.DeepCopy())" {
					n++
				} else {
					ok = false
				}
			}
		case *ast.KeyValueExpr:
			// the initial literal: Items: make([]resource.Resource, 0, ...)
			if src(v.Key) == "Items" && !strings.HasPrefix(src(v.Value), "make([]resource.Resource, 0,") {
				ok = false
			}
		}

		return true
	})

	return ok && ranged && n == 1
}

// cacheGetShape: the only non-nil resource returned is `h.resources[idx].DeepCopy()`.
func cacheGetShape(fd *ast.FuncDecl) bool {
	if fd == nil || fd.Body == nil {
		return false
	}

	ok := true
	n := 0

	ast.Inspect(fd.Body, func(x ast.Node) bool {
		if _, isLit := x.(*ast.FuncLit); isLit {
			return false // comparison closures of BinarySearchFunc
		}

		if r, isRet := x.(*ast.ReturnStmt); isRet && len(r.Results) == 2 {
			if src(r.Results[0]) == "nil" {
				return true
			}

			if src(r.Results[0]) == "h.resources[idx].DeepCopy()" && src(r.Results[1]) == "nil" {
				n++
			} else {
				ok = false
			}
		}

		return true
	})

	return ok && n == 1
}

// cacheListShape: the successful return is
// `resource.List{Items: xslices.Map(resources, resource.Resource.DeepCopy)}, nil`.
func cacheListShape(fd *ast.FuncDecl) bool {
	if fd == nil || fd.Body == nil {
		return false
	}

	ok := true
	n := 0

	ast.Inspect(fd.Body, func(x ast.Node) bool {
		if _, isLit := x.(*ast.FuncLit); isLit {
			return false
		}

		if r, isRet := x.(*ast.ReturnStmt); isRet && len(r.Results) == 2 {
			if src(r.Results[0]) == "resource.List{}" {
				return true
			}

			if src(r.Results[0]) == "resource.List{ Items: xslices.Map(resources, resource.Resource.DeepCopy), }" &&
				src(r.Results[1]) == "nil" {
				n++
			} else {
				ok = false
			}
		}

		return true
	})

	return ok && n == 1
}
