package main

import (
	"go/ast"
	"path/filepath"
	"strings"
)

// genHistOpts regenerates Cosi/Gen/HistOpts.lean from pkg/state/impl/inmem/options.go: the defaults of the watch
// history and what each capacity option does to the other capacity (fail closed: `.unknown`).
func genHistOpts(repo, out string) {
	const ns = "Cosi.Gen.HistOpts"

	l := newLean("HistOpts.lean", ns)
	f := parse(filepath.Join(repo, "pkg/state/impl/inmem/options.go"))

	// the closure body of `func WithX(arg int) StateOption { return func(options *StateOptions) { ... } }`
	body := func(name string) []string {
		fd := method(f, "", name)
		if fd == nil || fd.Body == nil || len(fd.Body.List) != 1 {
			return nil
		}

		rs, ok := fd.Body.List[0].(*ast.ReturnStmt)
		if !ok || len(rs.Results) != 1 {
			return nil
		}

		fl, ok := rs.Results[0].(*ast.FuncLit)
		if !ok {
			return nil
		}

		return stmtTexts(fl.Body.List)
	}

	onInit := ".unknown"
	if b := body("WithHistoryInitialCapacity"); len(b) == 2 && b[0] == "options.HistoryInitialCapacity = initialCapacity" {
		switch b[1] {
		case "if options.HistoryMaxCapacity < options.HistoryInitialCapacity { options.HistoryMaxCapacity = options.HistoryInitialCapacity }",
			"if options.HistoryInitialCapacity > options.HistoryMaxCapacity { options.HistoryMaxCapacity = options.HistoryInitialCapacity }":
			onInit = ".raiseMax"
		}
	}

	onMax := ".unknown"
	if b := body("WithHistoryMaxCapacity"); len(b) == 2 && b[0] == "options.HistoryMaxCapacity = maxCapacity" {
		switch b[1] {
		case "if options.HistoryInitialCapacity > options.HistoryMaxCapacity { options.HistoryInitialCapacity = options.HistoryMaxCapacity }",
			"if options.HistoryMaxCapacity < options.HistoryInitialCapacity { options.HistoryInitialCapacity = options.HistoryMaxCapacity }":
			onMax = ".lowerInit"
		}
	}

	both := false
	if b := body("WithHistoryCapacity"); len(b) == 2 {
		both = (b[0] == "options.HistoryMaxCapacity = capacity" && b[1] == "options.HistoryInitialCapacity = capacity") ||
			(b[1] == "options.HistoryMaxCapacity = capacity" && b[0] == "options.HistoryInitialCapacity = capacity")
	}

	gapSets := false
	if b := body("WithHistoryGap"); len(b) == 1 && b[0] == "options.HistoryGap = gap" {
		gapSets = true
	}

	// DefaultStateOptions returns a literal
	defs := map[string]string{"HistoryMaxCapacity": "0", "HistoryInitialCapacity": "0", "HistoryGap": "0"}

	if fd := method(f, "", "DefaultStateOptions"); fd != nil && fd.Body != nil && len(fd.Body.List) == 1 {
		if rs, ok := fd.Body.List[0].(*ast.ReturnStmt); ok && len(rs.Results) == 1 {
			if cl, ok := rs.Results[0].(*ast.CompositeLit); ok && src(cl.Type) == "StateOptions" {
				for _, e := range cl.Elts {
					if kv, ok := e.(*ast.KeyValueExpr); ok {
						if bl, ok := kv.Value.(*ast.BasicLit); ok && !strings.ContainsAny(bl.Value, "._xe") {
							defs[src(kv.Key)] = bl.Value
						}
					}
				}
			}
		}
	}

	l.line("/-- WithHistoryInitialCapacity(n): initial := n, and when the maximum is below it -/")
	l.line("def onSetInitial : CapAdjust := %s", onInit)
	l.line("/-- WithHistoryMaxCapacity(n): maximum := n, and when the initial capacity is above it -/")
	l.line("def onSetMax : CapAdjust := %s", onMax)
	l.line("/-- WithHistoryCapacity(n) sets both capacities to n -/")
	l.line("def capacitySetsBoth : Bool := %s", leanBool(both))
	l.line("/-- WithHistoryGap(n) sets the gap and nothing else -/")
	l.line("def gapSetsGap : Bool := %s", leanBool(gapSets))
	l.line("def defaultMax : Nat := %s", defs["HistoryMaxCapacity"])
	l.line("def defaultInitial : Nat := %s", defs["HistoryInitialCapacity"])
	l.line("def defaultGap : Nat := %s", defs["HistoryGap"])
	l.write(out, ns)
}
