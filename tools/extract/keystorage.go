package main

import (
	"go/ast"
	"path/filepath"
	"strings"
)

// genKeyStorage regenerates Cosi/Gen/KeyStorage.lean from pkg/keystorage/keystorage.go:
// the guard chains of Initialize / AddKeySlot / DeleteKeySlot / getKey (in source
// order, up to the first statement that does real work), the slot fields hashSlots
// writes into the HMAC (and whether the ids are sorted first), and whether getKey
// checks the algorithm and verifies the HMAC. Unknown shapes become `.unknown` /
// `false` (fail closed).
func genKeyStorage(repo, out string) {
	const ns = "Cosi.Gen.KeyStorage"

	l := newLean("KeyStorage.lean", ns)
	f := parse(filepath.Join(repo, "pkg/keystorage/keystorage.go"))

	// isZero must be the conjunction the model transcribes, else the two guards built on it are unknown
	isZeroOK := false

	if fd := method(f, "", "isZero"); fd != nil && fd.Body != nil && len(fd.Body.List) == 1 {
		isZeroOK = src(fd.Body.List[0]) == "return underlying.GetStorageVersion() == key_storage.StorageVersion_STORAGE_VERSION_UNSPECIFIED && len(underlying.GetKeySlots()) == 0 && len(underlying.GetKeysHmacHash()) == 0"
	}

	type rule struct{ cond, retHas, guard string }

	zeroGuard := func(g string) string {
		if isZeroOK {
			return g
		}

		return ".unknown"
	}

	common := []rule{
		{"!isZero(&ks.underlying)", "AlreadyInitializedTag", zeroGuard(".alreadyInit")},
		{"isZero(&ks.underlying)", "NotInitializedTag", zeroGuard(".notInit")},
		{"ks.underlying.GetStorageVersion() != key_storage.StorageVersion_STORAGE_VERSION_1", "VersionMismatchTag", ".version"},
	}

	type fn struct {
		name, lean, stop string
		rules            []rule
	}

	fns := []fn{
		{"Initialize", "initGuards", "encryptedSlot, err := helper.EncryptBinaryMessageArmored(slotPublicKey, masterKey)", []rule{
			{"len(masterKey) != 32", "fmt.Errorf(", ".mkLen32"},
			{`slotID == ""`, "fmt.Errorf(", ".emptyId"},
			{`slotPublicKey == ""`, "fmt.Errorf(", ".emptyKey"},
		}},
		{"AddKeySlot", "addGuards", "masterKey, err := ks.getKey(oldSlotID, oldSlotPrivateKey)", []rule{
			{`newSlotID == ""`, "fmt.Errorf(", ".emptyId"},
			{`newSlotPublicKey == ""`, "fmt.Errorf(", ".emptyKey"},
			{"newSlot := ks.underlying.GetKeySlots()[newSlotID]; newSlot != nil", "SlotAlreadyExists", ".slotExists"},
		}},
		{"DeleteKeySlot", "deleteGuards", "masterKey, err := ks.getKey(slotID, slotPrivateKey)", nil},
		{"getKey", "getKeyGuards", "slot, ok := ks.underlying.GetKeySlots()[slotID]", []rule{
			{`slotID == ""`, "fmt.Errorf(", ".emptyId"},
			{`slotPrivateKey == ""`, "fmt.Errorf(", ".emptyKey"},
		}},
	}

	// the returned error expression of a clause body `return [nil,] <err>`; "" if it is not such a return
	retErr := func(body []ast.Stmt) string {
		if len(body) != 1 {
			return ""
		}

		r, ok := body[0].(*ast.ReturnStmt)
		if !ok || len(r.Results) == 0 {
			return ""
		}

		for _, e := range r.Results[:len(r.Results)-1] {
			if src(e) != "nil" {
				return ""
			}
		}

		e := src(r.Results[len(r.Results)-1])
		if e == "nil" {
			return ""
		}

		return e
	}

	match := func(rules []rule, cond, ret string) string {
		for _, r := range append(append([]rule{}, rules...), common...) {
			if r.cond == cond && ret != "" && strings.Contains(ret, r.retHas) {
				return r.guard
			}
		}

		return ".unknown"
	}

	for _, fn := range fns {
		fd := method(f, "KeyStorage", fn.name)

		var guards []string

		if fd == nil || fd.Body == nil {
			guards = []string{".unknown"}
		} else {
			stopped := false
			prev := ""

		stmts:
			for _, st := range fd.Body.List {
				s := src(st)

				switch {
				case s == fn.stop:
					stopped = true

					break stmts
				case s == "ks.mx.Lock()", s == "defer ks.mx.Unlock()":
				case s == "slots := ks.underlying.GetKeySlots()" && fn.name == "DeleteKeySlot":
				default:
					switch x := st.(type) {
					case *ast.SwitchStmt:
						switch {
						case x.Init == nil && x.Tag == nil: // switch { case cond: return err }
							for _, c := range x.Body.List {
								cc := c.(*ast.CaseClause)
								if len(cc.List) != 1 {
									guards = append(guards, ".unknown")

									continue
								}

								guards = append(guards, match(fn.rules, src(cc.List[0]), retErr(cc.Body)))
							}
						case x.Init == nil && src(x.Tag) == "len(slots)" && prev == "slots := ks.underlying.GetKeySlots()":
							for _, c := range x.Body.List {
								cc := c.(*ast.CaseClause)
								ret := retErr(cc.Body)

								switch {
								case len(cc.List) == 1 && src(cc.List[0]) == "0" && strings.Contains(ret, "NotInitializedTag"):
									guards = append(guards, ".noSlots")
								case len(cc.List) == 1 && src(cc.List[0]) == "1" && strings.Contains(ret, "LastKeyTag"):
									guards = append(guards, ".lastSlot")
								default:
									guards = append(guards, ".unknown")
								}
							}
						default:
							guards = append(guards, ".unknown")
						}
					case *ast.IfStmt:
						c := src(x.Cond)
						if x.Init != nil {
							c = src(x.Init) + "; " + c
						}

						if x.Else != nil {
							guards = append(guards, ".unknown")
						} else {
							guards = append(guards, match(fn.rules, c, retErr(x.Body.List)))
						}
					default:
						guards = append(guards, ".unknown")
					}
				}

				prev = s
			}

			if !stopped {
				guards = append(guards, ".unknown")
			}
		}

		l.line("def %s : List KsGuard := %s", fn.lean, leanList(guards))
	}

	// hashSlots: which slot fields are written into the HMAC, in which order; ids sorted first
	var fields []string

	sorted := false

	if fd := method(f, "KeyStorage", "hashSlots"); fd == nil || fd.Body == nil {
		fields = []string{".unknown"}
	} else {
		want := map[string]bool{
			"hash := hmac.New(sha256.New, masterKey)": false,
			"keySlots := ks.underlying.GetKeySlots()": false,
			"keys := maps.Keys(keySlots)":             false,
			"return hash.Sum(nil)":                    false,
		}
		loops := 0

		for _, st := range fd.Body.List {
			s := src(st)

			if _, ok := want[s]; ok {
				want[s] = true

				continue
			}

			if s == "sort.Strings(keys)" || s == "slices.Sort(keys)" {
				sorted = loops == 0

				continue
			}

			rs, ok := st.(*ast.RangeStmt)
			if !ok || src(rs.X) != "keys" || src(rs.Key) != "_" || src(rs.Value) != "key" {
				fields = append(fields, ".unknown") // something else touches the hash or the keys

				continue
			}

			loops++

			for _, b := range rs.Body.List {
				switch src(b) {
				case "hash.Write(keySlots[key].EncryptedKey)":
					fields = append(fields, ".blob")
				case "hash.Write([]byte(key))":
					fields = append(fields, ".id")
				default:
					fields = append(fields, ".unknown")
				}
			}
		}

		for _, seen := range want {
			if !seen {
				fields = append(fields, ".unknown")
			}
		}

		if loops != 1 {
			fields = append(fields, ".unknown")
		}
	}

	l.line("/-- the slot fields hashSlots writes into the HMAC, per slot, in order (no ids, lengths or separators unless listed) -/")
	l.line("def hmacFields : List HmacField := %s", leanList(fields))
	l.line("/-- hashSlots sorts the slot ids before iterating -/")
	l.line("def hmacSortedById : Bool := %s", leanBool(sorted))

	// getKey after the slot lookup: algorithm check, decrypt, verify
	algCheck, verifies := false, false

	if fd := method(f, "KeyStorage", "getKey"); fd != nil && fd.Body != nil {
		decrypted := false

		for _, st := range fd.Body.List {
			s := src(st)
			if s == "masterKey, err := helper.DecryptBinaryMessageArmored(slotPrivateKey, nil, string(slot.EncryptedKey))" {
				decrypted = true
			}

			is, ok := st.(*ast.IfStmt)
			if !ok || is.Else != nil {
				continue
			}

			c := src(is.Cond)
			if is.Init != nil {
				c = src(is.Init) + "; " + c
			}

			ret := retErr(is.Body.List)

			if !decrypted && c == "slot.Algorithm != key_storage.Algorithm_PGP_AES_GCM_256" && strings.Contains(ret, "AlgorithmMismatchTag") {
				algCheck = true
			}

			if decrypted && c == "err := ks.verifyKeySlots(masterKey); err != nil" && ret == "err" {
				verifies = true
			}
		}

		if r, ok := lastReturn(fd.Body); !ok || r != "masterKey, nil" {
			verifies = false
		}
	}

	rejects := false

	if fd := method(f, "KeyStorage", "verifyKeySlots"); fd != nil && fd.Body != nil && len(fd.Body.List) == 2 {
		if is, ok := fd.Body.List[0].(*ast.IfStmt); ok && is.Init == nil && is.Else == nil &&
			src(is.Cond) == "subtle.ConstantTimeCompare(ks.hashSlots(masterKey), ks.underlying.GetKeysHmacHash()) == 0" &&
			strings.Contains(retErr(is.Body.List), "HMACMismatchTag") && src(fd.Body.List[1]) == "return nil" {
			rejects = true
		}
	}

	l.line("/-- getKey refuses a slot whose algorithm is not PGP_AES_GCM_256 before decrypting -/")
	l.line("def getKeyChecksAlgorithm : Bool := %s", leanBool(algCheck))
	l.line("/-- getKey calls verifyKeySlots on the decrypted key and returns its error -/")
	l.line("def getKeyVerifies : Bool := %s", leanBool(verifies))
	l.line("/-- verifyKeySlots returns HMACMismatch when ConstantTimeCompare(hashSlots(key), stored tag) == 0 -/")
	l.line("def verifyRejectsMismatch : Bool := %s", leanBool(rejects))
	l.write(out, ns)
}
