package main

import (
	"go/ast"
	"path/filepath"
	"strings"
)

// genStore regenerates Cosi/Gen/Store.lean from
// pkg/state/impl/inmem/collection.go and errors.go.
func genStore(repo, out string) {
	const ns = "Cosi.Gen.Store"

	l := newLean("Store.lean", ns)
	coll := parse(filepath.Join(repo, "pkg/state/impl/inmem/collection.go"))
	errs := parse(filepath.Join(repo, "pkg/state/impl/inmem/errors.go"))

	// a statement that mutates the collection or the backing store ends the guard chain
	mutates := func(st ast.Stmt) bool {
		s := src(st)

		switch {
		case strings.HasPrefix(s, "collection.storage["),
			strings.HasPrefix(s, "delete(collection.storage"),
			strings.HasPrefix(s, "collection.inject("),
			strings.HasPrefix(s, "collection.publish("),
			strings.HasPrefix(s, "if collection.store != nil"):
			return true
		}

		return false
	}

	type rule struct{ cond, ret, prev, check string }

	rules := map[string][]rule{
		"Create": {
			{"err := resCopy.Metadata().SetOwner(owner); err != nil", "err", "", ".setOwner"},
			{"_, exists := collection.storage[resCopy.Metadata().ID()]; exists", "ErrAlreadyExists(resCopy.Metadata())", "", ".absent"},
			// parsing the constant "1" cannot fail: not a precondition
			{"err != nil", "err", `version, err := resource.ParseVersion("1")`, ""},
		},
		"Update": {
			{"!exists", "ErrNotFound(newResourceCopy.Metadata())", "curResource, exists := collection.storage[id]", ".present"},
			{"curResource.Metadata().Owner() != options.Owner", "ErrOwnerConflict(curResource.Metadata(), curResource.Metadata().Owner())", "", ".ownerEq"},
			{"!curResource.Metadata().Version().Equal(curVersion)", "ErrVersionConflict(curResource.Metadata(), curVersion, curResource.Metadata().Version())", "curVersion := newResourceCopy.Metadata().Version()", ".versionEq"},
			{"options.ExpectedPhase != nil && curResource.Metadata().Phase() != *options.ExpectedPhase", "ErrPhaseConflict(curResource.Metadata(), *options.ExpectedPhase)", "", ".phaseExpected"},
		},
		"Destroy": {
			{"!exists", "ErrNotFound(ptr)", "resource, exists := collection.storage[id]", ".present"},
			{"resource.Metadata().Owner() != owner", "ErrOwnerConflict(resource.Metadata(), resource.Metadata().Owner())", "", ".ownerEq"},
			{"!resource.Metadata().Finalizers().Empty()", "ErrPendingFinalizers(*resource.Metadata())", "", ".finsEmpty"},
		},
	}

	storeBeforeMemory := true
	preparedBeforeStore := true
	lockDiscipline := true

	for _, m := range []string{"Create", "Update", "Destroy"} {
		fd := method(coll, "ResourceCollection", m)

		var checks []string

		if fd == nil {
			checks = []string{".unknown"}
			storeBeforeMemory, lockDiscipline = false, false
		} else {
			gs, stopped := guardsBefore(fd.Body, mutates)
			if !stopped {
				checks = append(checks, ".unknown")
			}

			for _, g := range gs {
				matched := false

				for _, r := range rules[m] {
					if r.cond == g.cond && r.ret == g.ret && (r.prev == "" || r.prev == g.prev) {
						matched = true

						if r.check != "" {
							checks = append(checks, r.check)
						}

						break
					}
				}

				if !matched {
					checks = append(checks, ".unknown")
				}
			}

			// structure after the guards: backing store first, then memory, then publish,
			// all under `mu.Lock(); defer mu.Unlock()`
			var order []string

			locked, deferred := false, false

			for _, st := range fd.Body.List {
				s := src(st)

				switch {
				case s == "collection.mu.Lock()":
					locked = true
				case s == "defer collection.mu.Unlock()":
					deferred = locked
				case strings.HasPrefix(s, "if collection.store != nil"):
					if !(containsCall(st, "collection.store.Put(") || containsCall(st, "collection.store.Destroy(")) {
						order = append(order, "?")
					}

					// the store call must be `if err := store.X(...); err != nil { return err }` (fail closed on any other shape)
					aborts := false

					if outer, ok := st.(*ast.IfStmt); ok && len(outer.Body.List) == 1 {
						if inner, ok := outer.Body.List[0].(*ast.IfStmt); ok {
							if r, ok := lastReturn(inner.Body); ok && r == "err" {
								aborts = true
							}
						}
					}

					if !aborts {
						order = append(order, "?")
					}

					order = append(order, "store")
				case strings.HasPrefix(s, "collection.storage["), strings.HasPrefix(s, "delete(collection.storage"), strings.HasPrefix(s, "collection.inject("):
					order = append(order, "mem")

					if !deferred {
						lockDiscipline = false
					}
				case strings.HasPrefix(s, "collection.publish("):
					order = append(order, "pub")
				case strings.Contains(s, "Copy.Metadata().Set"):
					// the copy is prepared (version, times, owner) before it is handed to the backing store: what is
					// persisted is what goes to memory
					for _, o := range order {
						if o == "store" {
							preparedBeforeStore = false
						}
					}
				}
			}

			o := strings.Join(order, ",")
			if o != "store,mem" && o != "store,mem,pub" {
				storeBeforeMemory = false
			}

			if !deferred {
				lockDiscipline = false
			}
		}

		l.line("def %sChecks : List Check := %s", strings.ToLower(m), leanList(checks))
	}

	l.line("/-- backing-store write precedes the in-memory write and the publish, and its error aborts the op -/")
	l.line("def storeBeforeMemory : Bool := %s", leanBool(storeBeforeMemory))
	l.line("/-- Create/Update: every `Metadata().Set…` on the copy precedes the backing-store Put (the persisted record is the stored one) -/")
	l.line("def preparedBeforeStore : Bool := %s", leanBool(preparedBeforeStore))
	l.line("/-- Create/Update/Destroy run entirely under `mu.Lock(); defer mu.Unlock()` -/")
	l.line("def lockDiscipline : Bool := %s", leanBool(lockDiscipline))

	// state/errors.go IsConflictError: after errors.As, BOTH qualifiers are compared with the error's resource
	conflictQ := false

	if fd := method(parse(filepath.Join(repo, "pkg/state/errors.go")), "", "IsConflictError"); fd != nil && fd.Body != nil {
		var body []string
		for _, st := range fd.Body.List {
			body = append(body, src(st))
		}

		conflictQ = strings.Join(body, " ;; ") == strings.Join([]string{
			"var i ErrConflict",
			"var options ErrcheckOptions",
			"for _, o := range opts { o(&options) }",
			"if !errors.As(err, &i) { return false }",
			"res := i.GetResource()",
			"if options.resourceNamespace != \"\" && res.Namespace() != options.resourceNamespace { return false }",
			"if options.resourceType != \"\" && res.Type() != options.resourceType { return false }",
			"return true",
		}, " ;; ")
	}

	l.line("/-- `state.IsConflictError`: a conflict error, and each qualifier given (namespace, type) equals the error's resource -/")
	l.line("def conflictChecksBothQualifiers : Bool := %s", leanBool(conflictQ))

	// errors.go: which constructors set `resource:` in their eConflict literal
	l.line("def errHasResource : String → Bool")

	for _, d := range errs.Decls {
		fd, ok := d.(*ast.FuncDecl)
		if !ok || fd.Recv != nil || !strings.HasPrefix(fd.Name.Name, "Err") {
			continue
		}

		ret, ok := lastReturn(fd.Body)
		if !ok || !strings.Contains(ret, "eConflict{") {
			continue
		}

		has := false

		ast.Inspect(fd.Body, func(n ast.Node) bool {
			if cl, ok := n.(*ast.CompositeLit); ok && src(cl.Type) == "eConflict" {
				for _, e := range cl.Elts {
					if kv, ok := e.(*ast.KeyValueExpr); ok && src(kv.Key) == "resource" && src(kv.Value) == "r" {
						has = true
					}
				}
			}

			return true
		})

		l.line("  | %q => %s", fd.Name.Name, leanBool(has))
	}

	l.line("  | _ => false")
	l.write(out, ns)
}
